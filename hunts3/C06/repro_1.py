# C06 counterexample 1: a binary string whose fraction bits fill the whole (signed) word is sized with a shorter
# fraction length and then RE-READ at that length: the object silently holds 2x (or 2^k x) the value, no flag.
import sys
from fractions import Fraction as F
from fxpmath import Fxp

bad = 0
cases = [
    # (string, signed arg, value the string denotes)
    ('0b.00110', None, F(0b00110, 2**5)),          # 6/32  = 0.1875  (sign bit 0)
    ('0b.01',    None, F(0b01, 2**2)),             # 1/4
    ('0b.11',    True, F(0b11 - 4, 2**2)),         # two's complement 2-bit word -1 -> -1/4
    ('0b.11111111', True, F(0b11111111 - 256, 2**8)),   # -1/256
]
for s, signed, v in cases:
    x = Fxp(s) if signed is None else Fxp(s, signed)
    got = F(int(x.val)) / F(2)**x.n_frac            # exact value of the stored code
    flags = [k for k in ('overflow', 'underflow', 'inaccuracy') if x.status[k]]
    if got != v:
        bad += 1
        print('Fxp(%r%s) -> %s reads %s (get_val %r), the string denotes %s; flags raised: %r'
              % (s, '' if signed is None else ', %r' % signed, x.dtype, got, x.get_val(), v, flags))
# control: the same strings with the value in an unsigned word (room for all fraction bits) are read correctly
c = Fxp('0b.00110', False)
assert F(int(c.val)) / F(2)**c.n_frac == F(6, 32), 'control failed'
sys.exit(1 if bad else 0)
