# C06 counterexample 2: only n_frac is given, the value comes as a binary / hexadecimal string (a word of len(string) bits).
# When n_frac > len - sign the size search overrides the GIVEN n_frac and the string is re-read with the shorter one:
# silently a different value (2^k too large), no status flag. Both with raw=True and without.
import sys
from fractions import Fraction as F
from fxpmath import Fxp

bad = 0
cases = [
    # (args, kwargs, denoted value = word / 2^n_frac)
    (('0b0110',), dict(n_frac=5), F(6, 2**5)),
    (('0b0110',), dict(n_frac=5, raw=True), F(6, 2**5)),
    (('0b100', False), dict(n_frac=5), F(4, 2**5)),
    (('0b100', False), dict(n_frac=5, raw=True), F(4, 2**5)),
    (('0x1F',), dict(n_frac=8), F(31, 2**8)),
    ((['0b0110', '0b0001'],), dict(n_frac=5, raw=True), [F(6, 32), F(1, 32)]),
]
for a, k, v in cases:
    x = Fxp(*a, **k)
    codes = x.val.ravel().tolist() if x.val.ndim else [x.val.item()]
    got = [F(int(c)) / F(2)**x.n_frac for c in codes]
    exp = v if isinstance(v, list) else [v]
    flags = [f for f in ('overflow', 'underflow', 'inaccuracy') if x.status[f]]
    if got != exp or x.n_frac != k['n_frac']:
        bad += 1
        print('Fxp(%s, %s) -> %s reads %s, denoted %s (n_frac asked %d, got %d); flags: %r'
              % (', '.join(map(repr, a)), ', '.join('%s=%r' % i for i in k.items()), x.dtype,
                 [str(g) for g in got], [str(e) for e in exp], k['n_frac'], x.n_frac, flags))
# control: all three sizes given -> the same string and n_frac are honoured
c = Fxp('0b0110', True, 4, 5)
assert F(int(c.val)) / F(2)**c.n_frac == F(6, 32) and c.n_frac == 5, 'control failed'
sys.exit(1 if bad else 0)
