# C06 counterexample 3: raw value given as a DECIMAL STRING, only n_frac given, word capped at 64 bits:
# the size search shortens the fraction length (s64/23) but the raw string is stored unscaled -> saturated,
# overflow flag, value off by 2^39 (the int carrier of the very same raw value is exact since D100).
import sys
from fractions import Fraction as F
from fxpmath import Fxp

bad = 0
raw = 2**39 * 2**30                     # value 2^39 (k = 2^39, f = 0: inside the domain), fraction length asked 30
v = F(raw, 2**30)
def val_of(x):
    codes = x.val.ravel().tolist() if x.val.ndim else [x.val.item()]
    return [F(int(c)) / F(2)**x.n_frac for c in codes]
ref = Fxp(raw, n_frac=30, raw=True)     # python int carrier: s64/23, exact
assert val_of(ref) == [v], 'control failed'
for carrier in (str(raw), [str(raw), str(3 * 2**30)], ):
    x = Fxp(carrier, n_frac=30, raw=True)
    exp = [v] if isinstance(carrier, str) else [v, F(3)]
    got = val_of(x)
    lsb = F(1, 2**x.n_frac)
    if x.n_word > 64 or any(abs(g - e) >= lsb for g, e in zip(got, exp)) or x.status['overflow']:
        bad += 1
        print('Fxp(%r, n_frac=30, raw=True) -> %s reads %s expected %s (error must stay below one LSB = 2^-%d); status %r'
              % (carrier, x.dtype, [str(g) for g in got], [str(e) for e in exp], x.n_frac, {k: s for k, s in x.status.items() if s}))
sys.exit(1 if bad else 0)
