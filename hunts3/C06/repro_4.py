# C06 counterexample 4: a list of binary strings with different formats: the sizes are taken as the maximum word and the
# maximum fraction length of the elements independently, which cannot hold the element with the longest integer part:
# construction raises ValueError instead of inferring s6/2 for [3.25, 1.5].
import sys
from fractions import Fraction as F
from fxpmath import Fxp

vals = [F(0b01101, 4), F(0b00011, 2)]   # '0b011.01' = 3.25, '0b0001.1' = 1.5
try:
    x = Fxp(['0b011.01', '0b0001.1'])
except Exception as e:
    print("Fxp(['0b011.01', '0b0001.1']) raised %s: %s ; expected a format holding %s exactly (s6/2)" % (type(e).__name__, e, [str(v) for v in vals]))
    sys.exit(1)
got = [F(int(c)) / F(2)**x.n_frac for c in x.val.tolist()]
if got != vals:
    print('reads', got, 'expected', vals); sys.exit(1)
sys.exit(0)
