# C06 borderline 1: a size is given but too short for exactness (n_frac below the exact one, or n_word too small) and the
# rounding mode can round AWAY from zero: the inferred word / fraction length is computed on the value truncated towards
# zero, the rounded code does not fit -> overflow (or underflow) flag and saturation in a format the library chose itself.
import sys
from fractions import Fraction as F
from fxpmath import Fxp
bad = 0
for a, k, code, fmt in [((3.75,), dict(n_frac=1, rounding='around'), 8, 's5/1'),
                        ((0.5,), dict(n_frac=0, rounding='ceil'), 1, 's2/0'),
                        ((-1.0625,), dict(n_frac=1, rounding='floor'), -3, 's3/1'),
                        ((3.875,), dict(n_word=5, rounding='around'), None, None)]:
    x = Fxp(*a, **k)
    if x.status['overflow'] or x.status['underflow']:
        bad += 1
        print('Fxp(%r, %r) -> %s code %r, status %r%s' % (a[0], k, x.dtype, x.val.item(), {f: s for f, s in x.status.items() if s},
              '' if code is None else ' ; rounded code %d needs %s' % (code, fmt)))
sys.exit(1 if bad else 0)
