"""C08 counterexample 1: value ('repr') method + overflow='wrap' into an out / out_like word of 41..63 bits:
a result whose scaled value is >= 2**63 is stored as 0 (raw method stores the exact wrapped code)."""
import sys
from fractions import Fraction as F
from fxpmath import Fxp
from fxpmath import functions as fx

bad = 0
def wrap_code(q, signed, n_word, n_frac):
    # exact power-of-two scaling, no rounding needed here; two's complement wrap
    c = q * F(2) ** n_frac
    assert c.denominator == 1
    c = int(c) % (1 << n_word)
    if signed and c >= 1 << (n_word - 1):
        c -= 1 << n_word
    return c

cases = [
    # (x value, x fmt, y value, y fmt, op, out fmt)
    (3.0, (False, 4, 0), 3.0, (False, 4, 0), 'mul', (False, 62, 60)),
    (1.5, (False, 4, 1), 6.0, (False, 4, 0), 'mul', (True, 63, 60)),
    (4.5, (False, 4, 1), 4.5, (False, 4, 1), 'add', (False, 62, 60)),
    (-5.0, (True, 4, 0), 4.0, (False, 4, 0), 'sub', (True, 62, 60)),
    (2047.0, (False, 12, 0), 4095.0, (False, 12, 0), 'mul', (False, 45, 41)),
]
for xv, xf, yv, yf, op, of in cases:
    exact = {'mul': F(xv) * F(yv), 'add': F(xv) + F(yv), 'sub': F(xv) - F(yv)}[op]
    expected = wrap_code(exact, *of)
    res = {}
    for method in ('raw', 'repr'):
        for kind in ('out', 'out_like'):
            x = Fxp(xv, *xf); y = Fxp(yv, *yf)
            o = Fxp(None, *of, overflow='wrap')
            fn = {'mul': fx.mul, 'add': fx.add, 'sub': fx.sub}[op]
            z = fn(x, y, method=method, **{kind: o})
            res[(method, kind)] = int(z.val)
    for k, got in res.items():
        if got != expected:
            bad += 1
            print('MISMATCH %s %r %s %r -> %s%d/%d wrap, %s: code %d, expected %d (exact result %s)' %
                  (xv, xf, op, (yv, yf), 's' if of[0] else 'u', of[1], of[2], k, got, expected, exact))
# the operator route with op_out
x = Fxp(1.5, False, 4, 1, op_method='repr'); y = Fxp(6.0, False, 4, 0)
x.config.op_out = Fxp(None, False, 62, 60, overflow='wrap')
z = x * y
if int(z.val) != 2**60:
    bad += 1
    print('MISMATCH operator x*y with op_out u62/60 wrap, op_method repr: code %d expected %d' % (int(z.val), 2**60))
# variant: a float constant >= 2**63 converted into the operand's own (small, wrapping) format - default method 'raw' as well
c = float(2**63 + 2**11)            # exactly representable double; (2**63 + 2**11) mod 2**12 = 2048
for method in ('raw', 'repr'):
    x = Fxp(1, False, 12, 0, overflow='wrap', op_method=method)
    z = x + c                        # constant -> u12/0 wrap: 2048; 1 + 2048 = 2049
    zi = x + (2**63 + 2**11)         # the same constant as python integer
    if int(z.val) != 2049:
        bad += 1
        print('MISMATCH x + float(2**63 + 2**11), x = u12/0 wrap code 1, op_method=%s: code %d expected 2049 (python int constant gives %d)' % (method, int(z.val), int(zi.val)))
sys.exit(1 if bad else 0)
