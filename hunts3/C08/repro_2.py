"""C08 counterexample 2: a NumPy scalar / 0-d array / array constant on the LEFT of +, -, * (reflected operator) bypasses the
constant-operand rules: NumPy calls Fxp.__array_ufunc__, which calls functions.add/sub/mul(const, x) with the defaults
(sizing='optimal', method='raw', out=None): const_op_sizing, op_input_size, op_out, op_out_like and x's rounding/overflow are ignored.
The same constant as a python number (or the numpy constant on the right) follows the rules."""
import sys
import numpy as np
from fractions import Fraction as F
from fxpmath import Fxp

bad = 0
def report(msg):
    global bad
    bad += 1
    print('MISMATCH', msg)

def fmt(z): return (z.signed, z.n_word, z.n_frac)

# (a) default configuration: const_op_sizing='same', op_input_size='same' -> result format is x's format s8/4, saturating
x = Fxp(7.5, True, 8, 4)                      # code 120
# exact 2 * 7.5 = 15 -> code 240 > 127 -> saturate: code 127 with overflow flag, format s8/4
for name, c in [('python float', 2.0), ('np.float64', np.float64(2.0)), ('np.int64', np.int64(2)), ('np.float32', np.float32(2.0)),
                ('0-d array', np.array(2.0)), ('1-d array', np.array([2.0]))]:
    z = c * x
    code = int(np.asarray(z.val).ravel()[0])
    if fmt(z) != (True, 8, 4) or code != 127 or not z.status['overflow']:
        report('%s * x: format %r code %d overflow flag %r; expected format (True, 8, 4) code 127 with overflow flag (as x * const gives)' % (name, fmt(z), code, z.status['overflow']))
    z2 = x * c      # numpy constant on the right: fine
    assert fmt(z2) == (True, 8, 4) and int(np.asarray(z2.val).ravel()[0]) == 127

# (b) an explicit out object in the configuration is ignored, so is the rounding of the result
out = Fxp(None, True, 6, 1, rounding='around')
x = Fxp(1.25, True, 8, 4, op_out=out)
for name, c in [('python float', 1.0), ('np.float64', np.float64(1.0))]:
    z = c + x       # exact 2.25 -> s6/1 around: 4.5 -> code 4 (half to even); returned object is `out`
    code = int(z.val)
    if z is not out or fmt(z) != (True, 6, 1) or code != 4:
        report('%s + x with op_out=s6/1(around): returned object is out: %r, format %r, code %d; expected out itself, (True, 6, 1), code 4' % (name, z is out, fmt(z), code))

# (c) op_input_size='same': the constant is first quantized into x's format; a numpy constant on the left is not
x = Fxp(0.5, False, 4, 2)          # u4/2
for name, c in [('python float', -0.125), ('np.float64', np.float64(-0.125))]:
    z = c + x      # constant -> u4/2: trunc(-0.5) = 0 -> clipped 0; 0 + 0.5 = 0.5 -> code 2 in u4/2
    code = int(z.val)
    if fmt(z) != (False, 4, 2) or code != 2:
        report('%s + x: format %r code %d (value %s); expected (False, 4, 2) code 2 (value 0.5)' % (name, fmt(z), code, F(code) / 2 ** z.n_frac))
sys.exit(1 if bad else 0)
