"""C08 counterexample 3: raw method, real unsigned minuend minus complex unsigned subtrahend: the imaginary part is dropped
(_sub_raw casts both raw operands to int64 when the first is an unsigned integer array; the complex codes of the second lose
their imaginary parts). The value ('repr') method gives the exact result."""
import sys, warnings
import numpy as np
from fxpmath import Fxp
from fxpmath import functions as fx
warnings.simplefilter('ignore')
bad = 0
def check(label, z, exp_re, exp_im, fmt):
    global bad
    v = complex(np.asarray(z.val).ravel()[0])
    got = (int(v.real), int(v.imag))
    if (z.signed, z.n_word, z.n_frac) != fmt or got != (exp_re, exp_im):
        bad += 1
        print('MISMATCH %s: format %r codes (re, im) %r; expected %r %r' % (label, (z.signed, z.n_word, z.n_frac), got, fmt, (exp_re, exp_im)))

# x = 1.0 (u4/1, code 2), y = 0.5+0.5j (u4/1, codes 1, 1); exact x - y = 0.5 - 0.5j
for method in ('raw', 'repr'):
    x = Fxp(1.0, False, 4, 1); y = Fxp(0.5 + 0.5j, False, 4, 1)
    # explicit signed out s8/2: codes (2, -2)
    z = fx.sub(x, y, out=Fxp(None, True, 8, 2), method=method)
    check('sub(x, y, out=s8/2, method=%s)' % method, z, 2, -2, (True, 8, 2))
    z = fx.sub(x, y, out_like=Fxp(None, True, 8, 2), method=method)
    check('sub(x, y, out_like=s8/2, method=%s)' % method, z, 2, -2, (True, 8, 2))
    # sizing 'same' (u4/1), overflow wrap: im code -1 wraps to 15, underflow flag
    x = Fxp(1.0, False, 4, 1, overflow='wrap', op_sizing='same', op_method=method)
    z = x - y
    check('x - y, op_sizing=same, wrap, op_method=%s' % method, z, 1, 15, (False, 4, 1))
    if not z.status['underflow']:
        bad += 1; print('MISMATCH x - y (op_method=%s): underflow flag not set for the negative imaginary part' % method)
    # the constant route: python complex constant, op_input_size='same'
    x = Fxp(1.0, False, 4, 1, overflow='wrap', op_method=method)
    z = x - (0.5 + 0.5j)
    check('x - (0.5+0.5j), op_method=%s' % method, z, 1, 15, (False, 4, 1))
sys.exit(1 if bad else 0)
