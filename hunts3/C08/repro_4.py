"""C08 counterexample 4: abs() of a complex array operand whose modulus is exactly representable is not exact.
__abs__ takes abs(self.val) of the complex raw codes - numpy's array loop returns 100.99999999999999 for |20+99j| = 101 - and stores
that float as a raw code in a new object with the default rounding 'trunc': 100. (Scalar objects and indexed elements are exact.)"""
import sys, math, warnings
import numpy as np
from fxpmath import Fxp
warnings.simplefilter('ignore')
bad = 0
# pythagorean triples: a^2 + b^2 = c^2, all three representable in s12/0 (and, scaled by 2^-f, in s12/f)
for a, b, c in [(20, 99, 101), (57, 176, 185), (3, 4, 5), (28, 195, 197)]:
    assert a * a + b * b == c * c
    for f in (0, 2):
        for rounding in ('trunc', 'around'):
            x = Fxp(np.array([complex(a, b)]) / 2.0**f, True, 12, f, rounding=rounding)
            assert complex(x.val[0]) == complex(a, b)
            z = abs(x)
            code = complex(np.asarray(z.val).ravel()[0])
            if code != complex(c, 0) or (z.signed, z.n_word, z.n_frac) != (True, 12, f):
                bad += 1
                print('MISMATCH abs(Fxp([%d%+dj] / 2**%d, s12/%d, rounding=%s)): code %r value %r; exact modulus %d / 2**%d = %r (code %d)' %
                      (a, b, f, f, rounding, code, z.get_val().tolist(), c, f, c / 2.0**f, c))
sys.exit(1 if bad else 0)
