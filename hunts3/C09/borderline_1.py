#!/usr/bin/env python
"""BORDERLINE (C09): a zero among the divisors of an array makes the whole x // y (and x % y) raise ZeroDivisionError when the kernel
works on python integers (aligned codes of 63+ bits, or 53+ bits for mixed signedness), so the elements with a NON-ZERO divisor - which are
inside the quantifier, result word 34 / 5 bits here - get no result at all. With one bit less the same call returns the right values for
them (numpy's behaviour: 0 and a RuntimeWarning for the zero divisor). The same asymmetry was repaired for method='repr' (af8fc32).
Exits 1 when the behaviour is present."""
import sys, warnings
import numpy as np
from fxpmath import Fxp
warnings.simplefilter('ignore')
bad = 0
def run(label, f, expected):
    global bad
    try:
        z = f(); got = [int(v) for v in np.asarray(z.val)]
        ok = all(g == e for g, e in zip(got, expected) if e is not None)
        print(label, z.dtype, got, 'ok' if ok else 'WRONG'); bad += (not ok)
    except ZeroDivisionError as e:
        print(label, 'raised ZeroDivisionError:', e); bad += 1
for w in (62, 63):
    x = Fxp(None, signed=True, n_word=w, n_frac=30); x.set_val([5 * 2**30, 7 * 2**30, -3 * 2**30], raw=True)     # 5, 7, -3
    y = Fxp(None, signed=True, n_word=8, n_frac=0);  y.set_val([2, 0, 3], raw=True)
    run('s%d/30 // s8/0' % w, lambda: x // y, [2, None, -1])
for w in (63, 64):
    x = Fxp(None, signed=False, n_word=w, n_frac=0); x.set_val([5, 7, 2**62 + 3], raw=True)
    y = Fxp(None, signed=False, n_word=5, n_frac=0); y.set_val([2, 0, 3], raw=True)
    run('u%d/0 %% u5/0' % w, lambda: x % y, [1, None, (2**62 + 3) % 3])
sys.exit(1 if bad else 0)
