#!/usr/bin/env python
"""BORDERLINE (C09, clause "raw and repr methods agreeing on // and %"): with op_method='repr' (value based calculation in doubles) an operand
whose code needs more than 53 bits is rounded to a double first, so // and % disagree with the (exact) raw method although the result word is
5 / 4 bits. D77's own witness, (3 - 2**-52) // 3 with a 56 bits dividend, still gives 1 with method='repr'. Exits 1 when present."""
import sys, math
from fractions import Fraction as F
import numpy as np
from fxpmath import Fxp
bad = 0
def code(z): return int(np.asarray(z.val).item())
def case(x, y, op):
    global bad
    X = F(code(x)) / 2**x.n_frac; Y = F(code(y)) / 2**y.n_frac
    E = F(math.floor(X / Y)) if op == '//' else X - Y * math.floor(X / Y)
    res = {}
    for m in ('raw', 'repr'):
        x.config.op_method = m
        z = x // y if op == '//' else x % y
        res[m] = (z.dtype, F(code(z)) / 2**z.n_frac)
    print(x.dtype, op, y.dtype, 'exact', E, res)
    if res['raw'][1] != res['repr'][1] or res['repr'][1] != E: bad += 1
x = Fxp(None, signed=True, n_word=56, n_frac=52); x.set_val(3 * 2**52 - 1, raw=True)      # 3 - 2**-52
y = Fxp(3, signed=True, n_word=3, n_frac=0)
case(x, y, '//')
x = Fxp(None, signed=False, n_word=54, n_frac=1); x.set_val(2**54 - 1, raw=True)          # 2**53 - 0.5
y = Fxp(None, signed=False, n_word=3, n_frac=0); y.set_val(4, raw=True)
case(x, y, '%')
sys.exit(1 if bad else 0)
