#!/usr/bin/env python
"""C09 counterexample 1: x / y stored into an imposed result format (out=, out_like=, op_out_like, np.divide(..., out=), op_sizing='smallest')
that has fewer fraction bits than x.n_frac - y.n_frac is NOT exact although the quotient is representable in the result format
(and for non-representable quotients it can be off by more than one LSB), as soon as the dividend's code needs more than 53 bits.
Result words are <= 53 bits. Exits 1 when the violation is present."""
import sys
from fractions import Fraction as F
import numpy as np
from fxpmath import Fxp
from fxpmath import functions as fn

fails = []

def code(z):
    return int(np.asarray(z.val).item())

def check(label, z, xc, xf, yc, yf):
    Q = (F(xc) / 2**xf) / (F(yc) / 2**yf)                  # exact quotient
    lsb = F(1) / 2**z.n_frac
    got = code(z) * lsb
    lo = -(1 << (z.n_word - 1)) if z.signed else 0
    hi = (1 << (z.n_word - 1)) - 1 if z.signed else (1 << z.n_word) - 1
    assert lo * lsb <= Q <= hi * lsb, 'quotient must fit the result format'
    representable = (Q / lsb).denominator == 1
    ok = (got == Q) if representable else abs(got - Q) < lsb
    print('%-34s %-10s got code %d  exact quotient/LSB = %s  (%s)  -> %s' % (label, z.dtype, code(z), Q / lsb,
          'representable' if representable else 'not representable', 'ok' if ok else 'VIOLATION'))
    if not ok:
        fails.append(label)

# --- A: representable quotient, destination s53/0 -----------------------------------------------------------------
# x = 5*2**51 + 5 held in s57/1 (code 2*x, 56 bits), y = 5 in s4/0.  x / y = 2**51 + 1 exactly: representable in s53/0.
xc, xf, yc, yf = 2 * (5 * 2**51 + 5), 1, 5, 0
def operands():
    x = Fxp(None, signed=True, n_word=57, n_frac=xf); x.set_val(xc, raw=True)
    y = Fxp(None, signed=True, n_word=4, n_frac=yf);  y.set_val(yc, raw=True)
    assert code(x) == xc and code(y) == yc
    return x, y
dest = lambda: Fxp(None, signed=True, n_word=53, n_frac=0)

x, y = operands(); check('truediv(x, y, out=s53/0)', fn.truediv(x, y, out=dest()), xc, xf, yc, yf)
x, y = operands(); check('truediv(x, y, out_like=s53/0)', fn.truediv(x, y, out_like=dest()), xc, xf, yc, yf)
x, y = operands(); x.config.op_out_like = dest(); check('x / y with config.op_out_like', x / y, xc, xf, yc, yf)
x, y = operands(); check('np.divide(x, y, out=s53/0)', np.divide(x, y, out=dest()), xc, xf, yc, yf)

# --- B: same thing without any destination object: op_sizing='smallest' -> result format s50/2 ---------------------
# x = 101*(2**48+1)*1.25/... : x code = (2**48+1)*101*64 in s62/10, y code 101 in s50/2 (25.25); x / y = (2**48+1)/4 exactly
xc2, xf2, yc2, yf2 = (2**48 + 1) * 101 * 64, 10, 101, 2
x = Fxp(None, signed=True, n_word=62, n_frac=xf2); x.set_val(xc2, raw=True)
y = Fxp(None, signed=True, n_word=50, n_frac=yf2); y.set_val(yc2, raw=True)
x.config.op_sizing = 'smallest'
check("x / y with op_sizing='smallest'", x / y, xc2, xf2, yc2, yf2)

# --- C: non-representable quotient, result is not one of the two neighbours ------------------------------------------
xc3, xf3, yc3, yf3 = -965786099691557210, 4, 366, 1
x = Fxp(None, signed=True, n_word=61, n_frac=xf3); x.set_val(xc3, raw=True)
y = Fxp(None, signed=False, n_word=9, n_frac=yf3); y.set_val(yc3, raw=True)
check('truediv(x, y, out=s53/2)', fn.truediv(x, y, out=Fxp(None, signed=True, n_word=53, n_frac=2)), xc3, xf3, yc3, yf3)

if fails:
    print('C09 violated: %d case(s): %s' % (len(fails), ', '.join(fails)))
    sys.exit(1)
print('no violation')
sys.exit(0)
