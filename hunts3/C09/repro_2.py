#!/usr/bin/env python
"""C09 counterexample 2: x % y stored into an imposed result format (out=, out_like=, op_out, np.mod(..., out=), op_sizing='smallest')
with fewer fraction bits than one of the operands is wrong - by much more than one LSB - although x - y*floor(x/y) is exactly
representable in that format, as soon as a code needs more than 53 bits. Result words are <= 53 bits (here 3 .. 20 bits).
Exits 1 when the violation is present."""
import sys, math
from fractions import Fraction as F
import numpy as np
from fxpmath import Fxp
from fxpmath import functions as fn

fails = []
def code(z):
    return int(np.asarray(z.val).item())

def check(label, z, xc, xf, yc, yf):
    X, Y = F(xc) / 2**xf, F(yc) / 2**yf
    R = X - Y * math.floor(X / Y)                            # exact modulo (sign of the divisor)
    lsb = F(1) / 2**z.n_frac
    assert (R / lsb).denominator == 1, 'the exact remainder is representable in the result format'
    lo = -(1 << (z.n_word - 1)) if z.signed else 0
    hi = (1 << (z.n_word - 1)) - 1 if z.signed else (1 << z.n_word) - 1
    assert lo <= R / lsb <= hi, 'the exact remainder fits the result format'
    got = code(z) * lsb
    ok = got == R
    print('%-36s %-9s got %s  expected %s -> %s  status=%s' % (label, z.dtype, got, R, 'ok' if ok else 'VIOLATION', {k: v for k, v in z.status.items() if v}))
    if not ok:
        fails.append(label)

# --- A: the divisor has one fraction bit more than the destination (dividend is an integer format!) ---------------
# x = 2**53 + 1 in u54/0, y = 2.0 in u3/1 (code 4), destination u3/0.  x % y = 1.
xc, xf, yc, yf = 2**53 + 1, 0, 4, 1
def operands():
    x = Fxp(None, signed=False, n_word=54, n_frac=xf); x.set_val(xc, raw=True)
    y = Fxp(None, signed=False, n_word=3, n_frac=yf);  y.set_val(yc, raw=True)
    assert code(x) == xc and code(y) == yc
    return x, y
dest = lambda: Fxp(None, signed=False, n_word=3, n_frac=0)
x, y = operands(); check('mod(x, y, out=u3/0)', fn.mod(x, y, out=dest()), xc, xf, yc, yf)
x, y = operands(); check('mod(x, y, out_like=u3/0)', fn.mod(x, y, out_like=dest()), xc, xf, yc, yf)
x, y = operands(); x.config.op_out = dest(); check('x % y with config.op_out', x % y, xc, xf, yc, yf)
x, y = operands(); check('np.mod(x, y, out=u3/0)', np.mod(x, y, out=dest()), xc, xf, yc, yf)

# --- B: the dividend has more fraction bits than the destination --------------------------------------------------
# x = 2**55 + 1 in s60/2 (code 4*x), y = 7 in s8/0, destination s8/0.  x % 7 = 3.
xc2, xf2, yc2, yf2 = 4 * (2**55 + 1), 2, 7, 0
x = Fxp(None, signed=True, n_word=60, n_frac=xf2); x.set_val(xc2, raw=True)
y = Fxp(None, signed=True, n_word=8, n_frac=yf2);  y.set_val(yc2, raw=True)
check('mod(x, y, out=s8/0)', fn.mod(x, y, out=Fxp(None, signed=True, n_word=8, n_frac=0)), xc2, xf2, yc2, yf2)

# --- C: no destination object: op_sizing='smallest' -> result format s20/2 -----------------------------------------
# x = (2**56+1)/4 in s62/3 (code 2*(2**56+1)), y = 3.0 in s20/2 (code 12).  x % y = 1.25 (code 5)
xc3, xf3, yc3, yf3 = 2 * (2**56 + 1), 3, 12, 2
x = Fxp(None, signed=True, n_word=62, n_frac=xf3); x.set_val(xc3, raw=True)
y = Fxp(None, signed=True, n_word=20, n_frac=yf3); y.set_val(yc3, raw=True)
x.config.op_sizing = 'smallest'
check("x % y with op_sizing='smallest'", x % y, xc3, xf3, yc3, yf3)

if fails:
    print('C09 violated: %d case(s): %s' % (len(fails), ', '.join(fails)))
    sys.exit(1)
print('no violation')
sys.exit(0)
