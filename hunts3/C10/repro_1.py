"""C10 counterexample 1: a complex value converted with overflow='wrap' loses its wrapped code when the
shifted code reaches 2**63 (both formats <= 52 bits).  Exits 1 when the violation is present."""
import sys, warnings
from fractions import Fraction
import numpy as np
from fxpmath import Fxp
warnings.simplefilter('ignore')

def wrap(c, nw):            # signed two's complement wrap, exact
    c %= 1 << nw
    return c - (1 << nw) if c >= 1 << (nw - 1) else c

kr, ki, fs = 4097, 1, 0                       # source codes (real, imag), source n_frac   (fxp-s16/0-complex)
nw, fd = 52, 51                               # destination fxp-s52/51, overflow='wrap', rounding='trunc'
exp = (wrap(kr * 2**(fd - fs), nw), wrap(ki * 2**(fd - fs), nw))     # exact: shift is to the left, no rounding

def routes(x):
    t = lambda: Fxp(None, True, nw, fd, overflow='wrap')
    yield 'Fxp(x, True, 52, 51, overflow=wrap)', Fxp(x, True, nw, fd, overflow='wrap')
    yield 'Fxp(x, dtype=...)', Fxp(x, dtype='fxp-s52/51', overflow='wrap')
    yield 'Fxp(x, like=t)', Fxp(x, like=t())
    yield 'x.like(t)', x.like(t())
    yield 't.equal(x)', t().equal(x)
    yield 't.set_val(x)', t().set_val(x)
    z = x.deepcopy(); z.config.overflow = 'wrap'; z.resize(True, nw, fd)
    yield 'x.resize(True, 52, 51)', z
    z = x.deepcopy(); z.config.overflow = 'wrap'; z.resize(dtype='fxp-s52/51')
    yield "x.resize(dtype='fxp-s52/51')", z
    d = Fxp([0, 0], True, nw, fd, overflow='wrap'); d[1] = x
    yield 'd[1] = x', d[1]

bad = 0
for label, x in (('complex value', Fxp(complex(kr, ki), True, 16, fs)),
                 ('real value in a complex format', Fxp(kr, dtype='fxp-s16/0-complex'))):
    e = exp if label == 'complex value' else (exp[0], 0)
    for name, y in routes(x):
        v = complex(np.asarray(y.val).flatten()[0])
        got = (int(v.real), int(v.imag))
        if got != e:
            bad += 1
            print('VIOLATION [%s] %-36s source %s %s -> got codes %s, expected %s (value %s)' % (label, name, x.dtype, x(), got, e, Fraction(e[0], 2**fd)))
# the same real value in a real typed object is converted correctly (contrast)
r = Fxp(Fxp(kr, True, 16, fs), True, nw, fd, overflow='wrap')
print('contrast: real source, same value ->', int(r.val), '(expected %d)' % exp[0])
print('violations:', bad)
sys.exit(1 if bad else 0)
