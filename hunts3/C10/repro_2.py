"""C10 counterexample 2: two successive conversions.  A real array converted into a complex typed format by like() / like= /
equal() / set_val() keeps integer codes; converting that object on (left shift reaching 2**63) raises OverflowError by the routes
that take the source as an Fxp (constructor, like=, set_val, indexed assignment) while like()/equal()/resize() give the exact result.
Exits 1 when the violation is present."""
import sys, warnings
import numpy as np
from fxpmath import Fxp
warnings.simplefilter('ignore')

codes, nw, fd = [0, 4097], 52, 51
x = Fxp(codes, True, 16, 0)                                   # fxp-s16/0, values 0 and 4097
y = x.like(Fxp(None, dtype='fxp-s16/0-complex'))              # conversion 1 (exact: same sizes), y = [0, 4097] complex typed
assert [complex(v) for v in np.asarray(y()).tolist()] == [0, 4097]

def sat(c): return max(-(1 << (nw - 1)), min((1 << (nw - 1)) - 1, c))
exp = [sat(k * 2**fd) for k in codes]                          # saturate: [0, 2**51 - 1]

def routes():
    t = lambda: Fxp(None, True, nw, fd)                        # default modes: trunc, saturate
    yield 'y.like(t)', lambda: y.like(t())
    yield 't.equal(y)', lambda: t().equal(y)
    def rs():
        z = y.deepcopy(); z.resize(True, nw, fd); return z
    yield 'y.resize(True, 52, 51)', rs
    yield 'Fxp(y, True, 52, 51)', lambda: Fxp(y, True, nw, fd)
    yield 'Fxp(y, like=t)', lambda: Fxp(y, like=t())
    yield 't.set_val(y)', lambda: t().set_val(y)
    def si():
        d = Fxp([0, 0], True, nw, fd); d[:] = y; return d
    yield 'd[:] = y', si

bad = 0
for name, f in routes():
    try:
        z = f()
        got = [int(complex(v).real) for v in np.asarray(z.val).flatten().tolist()]
        ok = got == exp
        print('%-24s -> %s %s' % (name, got, 'ok' if ok else 'VIOLATION, expected %s' % exp))
    except Exception as e:
        ok = False
        print('%-24s -> VIOLATION: raises %s: %s (expected codes %s)' % (name, type(e).__name__, e, exp))
    bad += not ok
print('violations:', bad)
sys.exit(1 if bad else 0)
