"""C10 borderline / counterexample 3: indexed assignment of a complex fixed-point element into an object obtained by slicing
(y = z[1:3]; y[0] = xc[1]) silently drops the imaginary part, while the same assignment into an object that is not a slice view
(z[1] = xc[1], or y = z[[1, 2]]) stores the complex value.  Exits 1 when the discrepancy is present."""
import sys, warnings
import numpy as np
from fxpmath import Fxp
warnings.simplefilter('ignore')

xc = Fxp(np.array([5 + 6j, 7 + 8j]), True, 8, 2, raw=True)        # fxp-s8/2-complex, codes 5+6j, 7+8j  (values 1.25+1.5j, 1.75+2j)
exp = 7 + 8j                                                         # same format: exact, no rounding, no overflow

z = Fxp(np.array([1, 2, 3, 4]), True, 8, 2, raw=True)
y = z[1:3]                  # element object (a view)
y[0] = xc[1]
got_view = complex(np.asarray(y.val)[0])

z2 = Fxp(np.array([1, 2, 3, 4]), True, 8, 2, raw=True)
z2[1] = xc[1]
got_direct = complex(np.asarray(z2.val)[1])

z3 = Fxp(np.array([1, 2, 3, 4]), True, 8, 2, raw=True)
y3 = z3[[1, 2]]             # element object (a copy)
y3[0] = xc[1]
got_copy = complex(np.asarray(y3.val)[0])

print('source element   :', xc[1].dtype, xc[1](), 'code', exp)
print('z[1] = xc[1]      -> code', got_direct)
print('y = z[[1,2]]; y[0] = xc[1] -> code', got_copy)
print('y = z[1:3];   y[0] = xc[1] -> code', got_view, '(y.dtype = %s, y() = %s)' % (y.dtype, y()))
bad = got_view != exp
if bad:
    print('DISCREPANCY: the slice object stored %s, expected %s (value %s): the imaginary part was dropped' % (got_view, exp, exp / 4))
sys.exit(1 if bad else 0)
