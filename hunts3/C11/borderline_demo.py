"""Borderline observations for C11 (NOT counted as counterexamples). Prints each observation; always exits 0."""
import io, contextlib
import numpy as np
from fxpmath import Fxp, Config

def show(title, fn):
    try:
        print(title, '->', fn())
    except Exception as e:
        print(title, '-> EXC', repr(e)[:140])

x = Fxp([-37, 5], True, 8, 3, raw=True)
# B1: object-dtype array of rendered strings (same strings, other numpy dtype)
s_obj = np.array(x.bin(prefix='0b'), dtype=object)
show('B1 object array of bin strings, raw', lambda: Fxp(s_obj, True, 8, 3, raw=True).val)
show('B1 object array of hex strings, value', lambda: Fxp(None, True, 8, 3).set_val(np.array(x.hex(), dtype=object)).val)
try:
    s_T = np.array(list(x.bin(prefix='0b')), dtype=np.dtypes.StringDType())
    show('B1 StringDType array of bin strings', lambda: Fxp(s_T, True, 8, 3, raw=True).val)
except AttributeError:
    pass
# B2: dotted rendering fed back with raw=True
s = Fxp(-37, True, 8, 3, raw=True).bin(frac_dot=True, prefix='0b')
show('B2 %s with raw=True (code -37 expected if the dot were ignored)' % s, lambda: Fxp(s, True, 8, 3, raw=True).val)
# B3: scaled object, value mode
xs = Fxp(-37, True, 8, 3, raw=True, scale=2, bias=1)
show('B3 scaled object (scale=2,bias=1): value-mode parse of its own bin() (code -37)', lambda: Fxp(None, like=xs)(xs.bin(prefix='0b')).val)
# B4: prefix selection is not inherited by Config.template / by some derived objects
Config.template = Config(bin_prefix='0b', hex_prefix='0X')
show('B4 Config.template with bin_prefix=0b, hex_prefix=0X: new object renders', lambda: (Fxp(3, True, 8, 0).bin(), Fxp(3, True, 8, 0).hex()))
Config.template = None
xp = Fxp([1, 2], True, 8, 0, bin_prefix='0b')
show('B4 (-x).bin(), (x<<1).bin(), abs(x).bin(), x.sum().bin() of an object with bin_prefix=0b', lambda: ((-xp).bin()[0], (xp << 1).bin()[0], abs(xp).bin()[0], xp.sum().bin()))
# B5: prefix=False
show('B5 bin(prefix=False)', lambda: x.bin(prefix=False))
show('B5 hex(prefix=False)', lambda: x.hex(prefix=False))
# B6: constructor given only part of the sizes (format is then searched, not "the same format")
z = Fxp(100, True, 8, 8, raw=True)   # value 100/256 = 0.390625
s = z.bin(frac_dot=True, prefix='0b')
y = Fxp(s, True, n_frac=8)
print('B6a', s, 'value', z(), '-> Fxp(s, True, n_frac=8):', y.dtype, 'code', y.val, 'value', y())
y = Fxp(s, True)
print('B6a', s, 'value', z(), '-> Fxp(s, True):', y.dtype, 'code', y.val, 'value', y())
w = Fxp([-2**63, 2**63 - 2, 1], True, 64, 1, raw=True)
y = Fxp(w.bin(prefix='0b'), True, n_frac=1, raw=True)
print('B6b s64/1 codes', w.val.tolist(), '-> Fxp(w.bin(), True, n_frac=1, raw=True):', y.dtype, y.val.tolist())
