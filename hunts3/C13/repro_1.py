"""C13 counterexample candidate: x[i] |= m (also &=, ^=) on an object with a scale / bias stores a wrong bit pattern.

The operator itself (x[i] | m) returns the right word; the indexed augmented assignment then stores that
element back through the *value* domain ((value - bias) / scale in doubles, then rounding), so the stored
code differs from the bitwise OR/AND/XOR of the operand patterns.  Same route as the repaired D65
(x[i] |= m at 54..63 bits), different mechanism (scaled destination), and it already happens in 2..6 bit words.
Exits 1 when the violation is present, 0 otherwise.
"""
import sys
from fxpmath import Fxp

def pattern(code, n):          # independent oracle: python integers only
    return code % (1 << n)

def to_code(p, n, signed):
    return p - (1 << n) if signed and p >> (n - 1) else p

cases = [
    # (signed, n_word, n_frac, kwargs, start codes, index, op, mask)
    (False, 2, 0, dict(scale=0.7), [0, 0], 0, 'or', 3),
    (False, 2, 0, dict(bias=0.3), [1, 1], 0, 'xor', 3),
    (True, 6, 0, dict(scale=0.1, bias=-3.25, rounding='floor'), [21, -16, -32, -5], 1, 'or', 58),
    (False, 6, 0, dict(scale=0.1), [20, 20], 0, 'xor', 63),
]
bad = 0
for signed, n, nf, kw, codes, i, op, m in cases:
    x = Fxp(None, signed, n, nf, **kw)
    x.set_val(codes, raw=True)
    assert [int(v) for v in x.val] == codes
    pa, pm = pattern(codes[i], n), pattern(m, n)
    exp_pat = {'or': pa | pm, 'and': pa & pm, 'xor': pa ^ pm}[op]
    exp_code = to_code(exp_pat, n, signed)
    # the operator alone
    r = {'or': x[i] | m, 'and': x[i] & m, 'xor': x[i] ^ m}[op]
    op_ok = int(r.val) == exp_code
    # the indexed augmented assignment
    if op == 'or': x[i] |= m
    elif op == 'and': x[i] &= m
    else: x[i] ^= m
    got = [int(v) for v in x.val]
    exp = list(codes); exp[i] = exp_code
    if got != exp or not op_ok:
        bad += 1
        print('VIOLATION %s %s: codes %r; x[%d] %s= %d -> codes %r (bin %r), expected %r (bin %r); operator alone correct: %s'
              % (x.dtype, kw, codes, i, {'or': '|', 'and': '&', 'xor': '^'}[op], m, got, x.bin(), exp,
                 [format(pattern(c, n), '0%db' % n) for c in exp], op_ok))
sys.exit(1 if bad else 0)
