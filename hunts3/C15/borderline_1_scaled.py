"""Borderline B1 (objects with scale / bias): every C15 function returns an UNSCALED result sized from the word of the operand,
so the values of a scaled operand do not fit: max / sort / transpose / diagonal saturate, sum / trace / prod overflow."""
import sys
import numpy as np
from fxpmath import Fxp
x = Fxp(np.array([[127, -128, 127], [127, 127, 127]]), True, 8, 0, raw=True, scale=4, bias=3)   # values 511 / -509
bad = 0
for label, f, expected in [
    ('np.max(x)', lambda: np.max(x), 511.0), ('x.max()', lambda: x.max(), 511.0), ('np.sum(x)', lambda: np.sum(x), 5 * 511.0 - 509.0),
    ('np.trace(x)', lambda: np.trace(x), 1022.0), ('np.transpose(x)[0,0]', lambda: np.transpose(x)[0, 0], 511.0), ('np.sort(x)[0,2]', lambda: np.sort(x)[0, 2], 511.0),
    ('np.diagonal(x)[0]', lambda: np.diagonal(x)[0], 511.0), ('x.T[0,0] (control)', lambda: x.T[0, 0], 511.0)]:
    z = f()
    ok = float(z.get_val()) == expected and not z.status['overflow']
    bad += not ok
    print('%s %-22s %s value %s expected %s flags %s' % ('ok       ' if ok else 'VIOLATION', label, z.dtype, z.get_val(), expected, {k: v for k, v in z.status.items() if v}))
# in place sort of a negatively scaled object orders the raw codes, i.e. the values descending
d = Fxp(np.array([3, 1, 2]), True, 8, 0, raw=True, scale=-1, bias=0); d.sort()
ok = d.get_val().tolist() == [-3.0, -2.0, -1.0]; bad += not ok
print('%s x.sort() with scale=-1 -> %s' % ('ok       ' if ok else 'VIOLATION', d.get_val().tolist()))
sys.exit(1 if bad else 0)
