"""Borderline B2..B6: call forms of the equivalent ndarray methods / operators that raise instead of computing."""
import sys, traceback
import numpy as np
from fxpmath import Fxp
x = Fxp([[1.5, -2.25, 3.0], [0.75, 7.75, -8.0]], True, 6, 2)
y = Fxp([[1.5], [2.0], [-3.5]], True, 6, 1)
bad = 0
def t(label, f, expected):
    global bad
    try:
        z = f(); got = np.asarray(z.get_val()).tolist()
        ok = got == expected
    except Exception as e:
        ok = False; got = '%s: %s' % (type(e).__name__, e)
    bad += not ok
    print('%s %-34s -> %s (expected %s)' % ('ok       ' if ok else 'VIOLATION', label, got, expected))
xv = np.array(x.get_val()); yv = np.array(y.get_val())
t('x.transpose(1, 0)  [ndarray form]', lambda: x.transpose(1, 0), xv.transpose(1, 0).tolist())
t('x.transpose((1, 0)) (control)', lambda: x.transpose((1, 0)), xv.transpose(1, 0).tolist())
t('x @ y', lambda: x @ y, (xv @ yv).tolist())
t('np.matmul(x, y) (control)', lambda: np.matmul(x, y), (xv @ yv).tolist())
t('np.dot(Fxp(2.5), x)  [0-d first]', lambda: np.dot(Fxp(2.5), x), (2.5 * xv).tolist())
t('np.dot(x, Fxp(2.5)) (control)', lambda: np.dot(x, Fxp(2.5)), (2.5 * xv).tolist())
t('x.dot([[8],[8],[8]]) [const sizing]', lambda: x.dot([[8], [8], [8]]), (xv @ np.array([[8], [8], [8]])).tolist())
sys.exit(1 if bad else 0)
