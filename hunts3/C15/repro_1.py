"""C15 counterexample 1: prod by the value method (op_method='repr') of an integer valued object with a negative
fraction length wraps around in int64 / uint64 silently, although the result word is only 40 (48) bits."""
import sys
from fractions import Fraction
import numpy as np
from fxpmath import Fxp

bad = 0

def check(label, z, expected):
    global bad
    got = Fraction(int(z.val)) * Fraction(2) ** (-z.n_frac)
    flags = {k: v for k, v in z.status.items() if v}
    if got != expected or z.status['overflow'] or z.status['underflow']:
        bad += 1
        print('VIOLATION %s: %s  got %s  expected %s  status flags %s' % (label, z.dtype, got, expected, flags))
    else:
        print('ok        %s: %s = %s' % (label, z.dtype, got))

# five elements at the upper extreme of s8/-8 (code 127, value 127 * 2**8), given as python integers
x = Fxp([127 * 256] * 5, signed=True, n_word=8, n_frac=-8)
assert x.val.tolist() == [127] * 5 and not any(x.status[k] for k in ('overflow', 'underflow', 'inaccuracy'))
expected = Fraction(127 * 256) ** 5                      # = 127**5 * 2**40: raw code 127**5 (35 bits) in the optimal s40/-40
check('x.prod(method="repr")        ', x.prod(method='repr'), expected)
x.config.op_method = 'repr'
check('op_method="repr"; x.prod()   ', x.prod(), expected)
check('op_method="repr"; x.prod(0)  ', x.prod(axis=0), expected)
x.config.op_method = 'raw'
check('x.prod() (raw method)        ', x.prod(), expected)     # control: exact

# length 8, u6/-4, every element at the upper extreme (code 63, value 1008): uint64 wraps
y = Fxp([63 * 16] * 8, signed=False, n_word=6, n_frac=-4)
check('u6/-4 len 8 prod(repr)       ', y.prod(method='repr'), Fraction(63 * 16) ** 8)
# the same codes reached through an indexed view of an integer valued object
w = Fxp([[127 * 256] * 5, [0] * 5], signed=True, n_word=8, n_frac=-8)[0]
check('row view, prod(repr)         ', w.prod(method='repr'), expected)

sys.exit(1 if bad else 0)
