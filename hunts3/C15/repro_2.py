"""C15 counterexample 2 (complex carriers): dot / prod / cumprod of complex fixed-point arrays overflow with optimal sizing
when the elements are at the extremes of their format (the optimal word has no room for re*re - im*im / re*im + im*re),
and an unsigned complex result cannot hold the negative real part at all."""
import sys
from fractions import Fraction as F
import numpy as np
from fxpmath import Fxp

bad = 0
def cval(z):
    v = np.asarray(z.val)
    sc = F(2) ** (-z.n_frac)
    return [(F(int(e.real)) * sc, F(int(e.imag)) * sc) for e in v.ravel()]

def check(label, z, expected):
    global bad
    got = cval(z)
    flags = {k: v for k, v in z.status.items() if v}
    if got != expected or z.status['overflow'] or z.status['underflow']:
        bad += 1
        print('VIOLATION %s: %s got %s expected %s flags %s' % (label, z.dtype, got, expected, flags))
    else:
        print('ok        %s: %s = %s' % (label, z.dtype, got))

# s4/0, every component at the lower extreme: (-8-8j)*(-8-8j) = 0+128j, the optimal s8/0 holds 127 at most
x = Fxp(np.array([-8 - 8j]), signed=True, n_word=4, n_frac=0)
assert x.val.tolist() == [-8 - 8j] and not x.status['overflow']
check('np.dot(x, x)   s4/0 K=1', np.dot(x, x), [(F(0), F(128))])
check('x.dot(x)       s4/0 K=1', x.dot(x), [(F(0), F(128))])
x2 = Fxp(np.array([-8 - 8j, -8 - 8j]), signed=True, n_word=4, n_frac=0)
check('np.prod(x2)    s4/0    ', np.prod(x2), [(F(0), F(128))])
check('x2.prod()      s4/0    ', x2.prod(), [(F(0), F(128))])
check('np.cumprod(x2) s4/0    ', np.cumprod(x2), [(F(-8), F(-8)), (F(0), F(128))])
check('np.dot(x2, x2) s4/0 K=2', np.dot(x2, x2), [(F(0), F(256))])
# unsigned: (15j)*(15j) = -225
u = Fxp(np.array([15j]), signed=False, n_word=4, n_frac=0)
check('np.dot(u, u)   u4/0 K=1', np.dot(u, u), [(F(-225), F(0))])
# controls: complex sum / real dot are exact
check('np.sum(x2)   (control) ', np.sum(x2), [(F(-16), F(-16))])
sys.exit(1 if bad else 0)
