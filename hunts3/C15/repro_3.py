"""C15 counterexample 3 (keyword `initial`): np.sum / np.max / np.min / np.prod (and the methods) hand `initial` to the reduction of the
RAW CODES, so it is taken as a raw code (sum, max, min) or cast to an integer (prod) instead of a value. Silent wrong values."""
import sys
from fractions import Fraction as F
import numpy as np
from fxpmath import Fxp

bad = 0
def val(z):
    return F(int(z.val)) * F(2) ** (-z.n_frac)
def check(label, z, expected):
    global bad
    flags = {k: v for k, v in z.status.items() if v}
    if val(z) != expected:
        bad += 1
        print('VIOLATION %s: %s got %s expected %s flags %s' % (label, z.dtype, val(z), expected, flags))
    else:
        print('ok        %s: %s = %s' % (label, z.dtype, val(z)))

v = Fxp([1.0, 2.0, -3.0], signed=True, n_word=8, n_frac=2)          # codes 4, 8, -12
check('np.sum(v, initial=1)            ', np.sum(v, initial=1), F(1))        # 1 + 2 - 3 + 1
check('v.sum(initial=1)                ', v.sum(initial=1), F(1))
check('np.max(v, initial=3)            ', np.max(v, initial=3), F(3))        # 3.0 is representable (code 12)
check('v.max(initial=3)                ', v.max(initial=3), F(3))
check('np.min(v, initial=-5)           ', np.min(v, initial=-5), F(-5))      # -5.0 is representable (code -20)
check('np.prod(v, initial=0.5)         ', np.prod(v, initial=0.5), F(-3))    # 1 * 2 * -3 * 0.5, representable in s24/6
check('v.sum(initial=1, method="repr") ', v.sum(initial=1, method='repr'), F(1))   # control: the value method is right
sys.exit(1 if bad else 0)
