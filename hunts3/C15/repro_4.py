"""C15 counterexample 4 (keyword `where`): np.prod(x, where=mask) / x.prod(where=mask) scales the product of the selected raw codes as if
ALL elements along the axis had been multiplied (n_frac = count * x.n_frac): the value is too small by 2**(n_frac * number of masked-out elements)."""
import sys
from fractions import Fraction as F
import numpy as np
from fxpmath import Fxp

bad = 0
def vals(z):
    return [F(int(c)) * F(2) ** (-z.n_frac) for c in np.asarray(z.val).ravel()]
def check(label, z, expected):
    global bad
    flags = {k: v for k, v in z.status.items() if v}
    if vals(z) != expected:
        bad += 1
        print('VIOLATION %s: %s got %s expected %s flags %s' % (label, z.dtype, vals(z), expected, flags))
    else:
        print('ok        %s: %s = %s' % (label, z.dtype, vals(z)))

v = Fxp([1.0, 2.0, -3.0], signed=True, n_word=8, n_frac=2)
mask = np.array([True, False, True])
check('np.prod(v, where=mask)              ', np.prod(v, where=mask), [F(-3)])            # 1.0 * -3.0
check('v.prod(where=mask)                  ', v.prod(where=mask), [F(-3)])
x = Fxp([[1.5, -2.25, 3.0], [0.75, 7.75, -8.0]], signed=True, n_word=6, n_frac=2)
m2 = np.array([[True, False, True], [False, True, True]])
check('np.prod(x, axis=0, where=m2)        ', np.prod(x, axis=0, where=m2), [F(3, 2), F(31, 4), F(-24)])
check('v.prod(where=mask, method="repr")   ', v.prod(where=mask, method='repr'), [F(-3)])   # control: the value method is right
check('np.sum(v, where=mask)               ', np.sum(v, where=mask), [F(-2)])               # control: sum with a mask is right
sys.exit(1 if bad else 0)
