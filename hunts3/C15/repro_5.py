"""C15 counterexample 5 (configuration array_op_method='raw'): np.matmul takes the RAW CODES of the operand(s) configured that way as if they
were values and wraps the result as a value: the result is too large by 2**n_frac of each such operand. np.dot under the same
configuration is exact."""
import sys
from fractions import Fraction as F
import numpy as np
from fxpmath import Fxp

bad = 0
def vals(z):
    return [F(int(c)) * F(2) ** (-z.n_frac) for c in np.asarray(z.val).ravel()]
def check(label, z, expected):
    global bad
    flags = {k: v for k, v in z.status.items() if v}
    if not isinstance(z, Fxp) or vals(z) != expected:
        bad += 1
        print('VIOLATION %s: %s got %s expected %s flags %s' % (label, getattr(z, 'dtype', type(z)), vals(z) if isinstance(z, Fxp) else z, expected, flags))
    else:
        print('ok        %s: %s = %s' % (label, z.dtype, vals(z)))

x = Fxp([[1.5, -2.25, 3.0], [0.75, 7.75, -8.0]], signed=True, n_word=6, n_frac=2)
y = Fxp([[1.5], [2.0], [-3.5]], signed=True, n_word=6, n_frac=1)
expected = [F(-51, 4), F(357, 8)]            # [1.5*1.5 - 2.25*2 - 3*3.5, 0.75*1.5 + 7.75*2 + 8*3.5]
check('default config: np.matmul(x, y)             ', np.matmul(x, y), expected)
x.config.array_op_method = 'raw'
check('x array_op_method=raw: np.matmul(x, y)      ', np.matmul(x, y), expected)
check('x array_op_method=raw: np.dot(x, y) (control)', np.dot(x, y), expected)
y.config.array_op_method = 'raw'
check('x, y array_op_method=raw: np.matmul(x, y)   ', np.matmul(x, y), expected)
sys.exit(1 if bad else 0)
