#!/usr/bin/env python
"""C16 counterexample 1: comparing a fixed-point object whose value type is float (or unset) with a
Python integer beyond the range of a double (|k| >= 2**1024, e.g. 10**309) raises OverflowError
instead of returning the truth value of the relation between the exact values.
Exits 1 (and prints the discrepancies) when the violation is present, 0 otherwise."""
import sys, operator
from fractions import Fraction
import numpy as np
from fxpmath import Fxp

OPS = ['lt', 'le', 'eq', 'ne', 'gt', 'ge']
REFL = {'lt': 'gt', 'le': 'ge', 'gt': 'lt', 'ge': 'le', 'eq': 'eq', 'ne': 'ne'}
UF = {'lt': np.less, 'le': np.less_equal, 'eq': np.equal, 'ne': np.not_equal, 'gt': np.greater, 'ge': np.greater_equal}

objs = [
    ('Fxp(1.5, True, 8, 2)', Fxp(1.5, True, 8, 2), [Fraction(3, 2)]),
    ('Fxp([1.5, -2.0], True, 8, 2)', Fxp([1.5, -2.0], True, 8, 2), [Fraction(3, 2), Fraction(-2)]),
    ('Fxp([1.5, -2.0], True, 8, 2)[0]', Fxp([1.5, -2.0], True, 8, 2)[0], [Fraction(3, 2)]),
    ('Fxp(6, raw=True, signed=False, n_word=8, n_frac=2)', Fxp(6, raw=True, signed=False, n_word=8, n_frac=2), [Fraction(3, 2)]),
    ('Fxp(3.0, True, 24, 0)', Fxp(3.0, True, 24, 0), [Fraction(3)]),
]
bad = 0
for label, x, exact in objs:
    # the oracle reads the stored code, not get_val()
    codes = [int(c) for c in np.asarray(x.val).ravel()]
    assert [Fraction(c, 2 ** x.n_frac) for c in codes] == exact
    for k in (2 ** 1024, 10 ** 309, -2 ** 1024):
        for name in OPS:
            expected = [getattr(operator, name)(v, k) for v in exact]       # exact: Fraction against int
            routes = {
                'x %s k' % name: lambda: getattr(operator, name)(x, k),
                'k %s x' % REFL[name]: lambda: getattr(operator, REFL[name])(k, x),
                'np.%s(x, k)' % UF[name].__name__: lambda: UF[name](x, k),
            }
            for rl, f in routes.items():
                try:
                    got = [bool(t) for t in np.asarray(f()).ravel()]
                except Exception as e:
                    bad += 1
                    if bad <= 12:
                        print('%s ; %s with k=%s...: raised %s: %s (expected %r)' % (label, rl, str(k)[:8], type(e).__name__, e, expected))
                    continue
                if got != expected:
                    bad += 1
                    print('%s ; %s: got %r expected %r' % (label, rl, got, expected))
if bad:
    print('%d comparisons against an integer beyond the double range did not return the truth value' % bad)
    sys.exit(1)
print('ok')
sys.exit(0)
