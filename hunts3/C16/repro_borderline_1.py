#!/usr/bin/env python
"""C16 borderline 1 (neighbour of the repaired D48): the NumPy whole-array comparison predicates that return a
*Python* bool - np.array_equal, np.array_equiv, np.allclose - raise OverflowError when an operand is an Fxp:
_wrapped_numpy_func only lets numpy booleans (ndarray / np.generic of dtype bool) through, a Python bool is
still wrapped into a fixed-point object (Fxp(True) itself raises OverflowError).
Exits 1 when present, 0 otherwise."""
import sys
import numpy as np
from fxpmath import Fxp
x = Fxp([0.5, -1.25, 3.0], signed=True, n_word=8, n_frac=2)     # codes 2, -5, 12
y = Fxp([0.5, -1.25, 3.0], signed=True, n_word=12, n_frac=5)    # codes 16, -40, 96: the same exact values
z = Fxp([0.5, -1.25, 3.25], signed=True, n_word=12, n_frac=5)
bad = 0
for f in (np.array_equal, np.array_equiv, np.allclose):
    for a, b, expected in ((x, y, True), (x, z, False), (x, [0.5, -1.25, 3.0], True), (np.array([0.5, -1.25, 3.0]), x, True)):
        try:
            r = f(a, b)
            if not isinstance(r, (bool, np.bool_)) or bool(r) != expected:
                bad += 1; print('%s: got %r expected %r' % (f.__name__, r, expected))
        except Exception as e:
            bad += 1; print('%s raised %s: %s (expected %r)' % (f.__name__, type(e).__name__, e, expected))
sys.exit(1 if bad else 0)
