"""Borderline observations for C17 (outside the statement or outside the stated carriers; see REPORT.md). Prints observed vs expected."""
import warnings
import numpy as np
from fxpmath import Fxp
warnings.simplefilter('ignore')
def line(tag, obs, exp): print(f'{tag:58s} observed {obs!s:28s} expected {exp}')

# B1 size inference / resize inherit counterexample 1
x = Fxp(49 + 49j, scale=49); line('B1 Fxp(49+49j, scale=49) inferred format', x.dtype, Fxp(1 + 1j).dtype + ' (format of the transformed value 1+1j)')
# B2 bool carriers
x = Fxp(True, True, 16, 0, bias=-5); line('B2 Fxp(True, True, 16, 0, bias=-5).val', x.val, '6  ((1-(-5))/1)')
x = Fxp(np.array([True, False]), True, 16, 0, bias=-5); line('B2 Fxp(np.array([True, False]), True,16,0,bias=-5).val', x.val, '[6 5]')
# B3 scale= next to like= is ignored silently
x = Fxp(3, like=Fxp(None, True, 8, 0), scale=2); line('B3 Fxp(3, like=<s8/0 unscaled>, scale=2): scale,val,upper', (x.scale, int(x.val), x.upper), '(2, 1, 254.0)')
# B4 astype(int) of a scaled object with fraction bits: floor is taken on the unscaled code
x = Fxp([10.5, 21.75], True, 16, 4, scale=0.5, bias=0.25); line('B4 astype(int) of values [10.5, 21.75] (s=0.5,b=0.25)', x.astype(int), '[10 21] (gives s*floor(code/2^n)+b, not even integers)')
# B5 unary operators and shifts copy the raw code into an unscaled result
x = Fxp([10.5, -3.5], True, 16, 4, scale=2, bias=0.5)
line('B5 (-x)() for x = [10.5, -3.5] (s=2, b=0.5)', (-x)(), '[-10.5 3.5]')
line('B5 (+x)()', (+x)(), '[10.5 -3.5]')
line('B5 abs(x)()', abs(x)(), '[10.5 3.5]')
line('B5 (x >> 1)()', (x >> 1)(), '[5.25 -1.75] (x/2 gives that)')
line('B5 (x << 1)()', (x << 1)(), '[21. -7.] (x*2 gives that)')
# B6 negative scale: methods working on raw codes see the reverse order
xn = Fxp([10.5, -3.5], True, 16, 4, scale=-2, bias=0.5)
line('B6 negative scale: x.argmax() of [10.5, -3.5]', xn.argmax(), '0')
xn.sort(); line('B6 negative scale: x.sort() then x()', xn(), '[-3.5 10.5]')
# B7 tolist() of a scalar object whose value leaves int64
y = Fxp(-2**63 - 8, True, 8, 0, bias=-2**63)
try: r = y.tolist()
except Exception as e: r = type(e).__name__
line('B7 Fxp(-2**63-8, True, 8, 0, bias=-2**63).tolist()', r, '-9223372036854775816')
