"""C17 counterexample 1: a complex value stored into an object whose scale is not a power of two is divided by the
scale with NumPy's *complex* division (Smith's algorithm: multiplication by the rounded reciprocal 1/scale), which is
not correctly rounded.  (v-b)/s is an exact (small) integer here, yet the code is off by one and/or the inaccuracy
flag is raised.  Run with PYTHONPATH pointing to the fxpmath tree.  Exit 1 = violation present."""
import sys, warnings
from fractions import Fraction as F
import numpy as np
from fxpmath import Fxp
warnings.simplefilter('ignore')

def quant(t, n_frac, rounding):      # C01 quantization (no overflow in these cases)
    import math
    return {'trunc': math.trunc, 'ceil': math.ceil, 'floor': math.floor}[rounding](F(t) * 2**n_frac)

bad = []
cases = [
    # (label, value, ctor kwargs, scale as Fraction, bias as Fraction, rounding)
    ('python complex, python int scale',       49 + 49j,                     dict(scale=49),                 F(49), F(0), 'trunc'),
    ('python complex, scale 49/4, bias 0.5',   12.75 + 24.5j,                dict(scale=12.25, bias=0.5),    F(49, 4), F(1, 2), 'trunc'),
    ('complex128 array',                       np.array([98 + 0j, 49j]),     dict(scale=49),                 F(49), F(0), 'floor'),
    ('list of complex',                        [-12544 - 12544j],            dict(scale=49),                 F(49), F(0), 'trunc'),
    ('np.longdouble scale 63.75 = 255/4',      1848.75 + 5418.75j,           dict(scale=np.longdouble(63.75)), F(255, 4), F(0), 'ceil'),
    ('np.longdouble bias, float scale 255/256', 10.58935546875 - 5.9765625j, dict(scale=0.99609375, bias=np.longdouble(1.5)), F(255, 256), F(3, 2), 'floor'),
    ('np.clongdouble value, float scale',      np.clongdouble(1848.75 + 5418.75j), dict(scale=63.75),        F(255, 4), F(0), 'ceil'),
]
for label, v, kw, s, b, rounding in cases:
    x = Fxp(v, True, 16, 0, rounding=rounding, **kw)            # overflow='saturate' (default), no overflow occurs
    kw = dict(kw, rounding=rounding)
    zs = np.asarray(v).ravel().tolist()
    exp = [(quant((F(float(complex(z).real)) - b) / s, 0, rounding), quant(F(float(complex(z).imag)) / s, 0, rounding)) for z in zs]
    ts = [((F(float(complex(z).real)) - b) / s, F(float(complex(z).imag)) / s) for z in zs]
    exp_inacc = any(tr != er or ti != ei for (tr, ti), (er, ei) in zip(ts, exp))
    got = [(int(c.real), int(c.imag)) for c in np.asarray(x.val).ravel().tolist()]
    exp_read = [complex(float(s * er + b), float(s * ei)) for er, ei in exp]
    got_read = [complex(q) for q in np.asarray(x()).ravel().tolist()]
    if got != exp or got_read != exp_read or bool(x.status['inaccuracy']) != exp_inacc:
        bad.append(f'{label}: Fxp({v!r}, True, 16, 0, {kw}) -> codes {got} (expected {exp}), reads {got_read} (expected {exp_read}), '
                   f"inaccuracy={x.status['inaccuracy']} (expected {exp_inacc}); exact (v-b)/s = {[(str(a), str(c)) for a, c in ts]}")

# indexed write and the flag alone (rounding='around' hides the code error, the flag still shows it)
y = Fxp([0j, 0j], True, 16, 0, scale=49, rounding='around')
y[1] = 49 + 49j
if y.status['inaccuracy'] or [complex(c) for c in y.val.tolist()] != [0j, 1 + 1j]:
    bad.append(f"indexed write, rounding='around': codes {y.val.tolist()} inaccuracy={y.status['inaccuracy']} (expected [0j, (1+1j)], False)")

# size inference sizes the inexact quotient instead of the transformed value 1+1j
z = Fxp(49 + 49j, scale=49)
if (z.n_word, z.n_frac) != (2, 0) or z.status['inaccuracy']:
    bad.append(f"size inference: Fxp(49+49j, scale=49) -> {z.dtype}, inaccuracy={z.status['inaccuracy']} (expected fxp-s2/0-complex holding 1+1j exactly: the transformed value is 1+1j)")

# a fixed-point source and resize go through the same conversion
w = Fxp(Fxp(49 + 49j, True, 16, 0), True, 16, 0, scale=49)
if complex(w.val) != 1 + 1j:
    bad.append(f'Fxp(Fxp(49+49j, True, 16, 0), True, 16, 0, scale=49) -> code {complex(w.val)} (expected (1+1j))')

if bad:
    print('C17 VIOLATION (complex value / non power-of-two scale):')
    for m in bad: print('  -', m)
    sys.exit(1)
print('ok')
sys.exit(0)
