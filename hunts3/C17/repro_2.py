"""C17 counterexample 2 (root cause shared with the unscaled C01 path): with overflow='wrap', a transformed value
(v-b)/s * 2^n_frac whose magnitude lies in [2^63, 2^68) is cast to int64 out of range (-> INT64_MIN) before the word
mask is applied, so the stored code is 0 instead of the value modulo 2^n_word (non zero for n_word >= 12).
Every intermediate is an exact double, n_word = 16, the scale is dyadic.  Exit 1 = violation present."""
import sys, warnings
from fractions import Fraction as F
import numpy as np
from fxpmath import Fxp
warnings.simplefilter('ignore')

def wrap_code(t, signed, n_word, n_frac):
    import math
    r = math.trunc(F(t) * 2**n_frac)
    m = 1 << n_word
    c = r % m
    if signed and c >= m >> 1: c -= m
    return c

bad = []
cases = [
    ('tiny scale',  1 + 2.0**-52,       dict(scale=2.0**-63), F(1, 2**63), 0),
    ('scale 1/2',   2.0**62 + 2**10,    dict(scale=0.5),      F(1, 2),     0),
    ('python int',  2**62 + 2**10,      dict(scale=0.5),      F(1, 2),     0),
    ('negative',    -(2.0**62 + 2**10), dict(scale=0.5),      F(1, 2),     0),
    ('n_frac=4',    2.0**58 + 2**6,     dict(scale=0.5),      F(1, 2),     4),
]
for label, v, kw, s, n_frac in cases:
    for signed in (True, False):
        x = Fxp(v, signed, 16, n_frac, overflow='wrap', **kw)
        exp = wrap_code(F(v) / s, signed, 16, n_frac)
        got = int(x.val)
        if got != exp:
            bad.append(f"{label}: Fxp({v!r}, {signed}, 16, {n_frac}, overflow='wrap', {kw}) stored {got}, expected {exp} "
                       f'= trunc({F(v) / s} * 2^{n_frac}) mod 2^16')
if bad:
    print("C17 VIOLATION (overflow='wrap', |(v-b)/s * 2^n_frac| in [2^63, 2^68)):")
    for m in bad: print('  -', m)
    sys.exit(1)
print('ok')
sys.exit(0)
