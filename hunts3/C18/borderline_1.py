"""BORDERLINE 1: the element objects x[i] of an array of 64+ bits hold a bare python int as `val`; int()/float()/bool()/.shape/.size/.ndim/
.uraw()/.item() on them raise (they work on elements of narrower arrays). Exits 1 if the behaviour is present."""
import sys
from fxpmath import Fxp
c = 2**100 + 1
x = Fxp([c, 6, -c], True, 128, 0)          # integer values, in range, stored exactly
assert x.val.tolist() == [c, 6, -c]
problems = []
for name, f, expected in (
        ('int(x[0])', lambda: int(x[0]), c),
        ('[int(e) for e in x]', lambda: [int(e) for e in x], [c, 6, -c]),
        ('float(x[1])', lambda: float(x[1]), 6.0),
        ('bool(x[1])', lambda: bool(x[1]), True),
        ('x[0].size', lambda: x[0].size, 1),
        ('x[0].shape', lambda: x[0].shape, ()),
        ('x[0].ndim', lambda: x[0].ndim, 0),
        ('int(x[2].uraw())', lambda: int(x[2].uraw()), 2**128 - c),
        ('x[0].item(0)', lambda: x[0].item(0), c)):
    try:
        got = f()
        if got != expected:
            problems.append('{}: got {!r}, expected {!r}'.format(name, got, expected))
    except Exception as e:
        problems.append('{}: raised {!r}, expected {!r}'.format(name, e, expected))
# control: the same expressions on a 32 bits array work
n = Fxp([5, 6, -5], True, 32, 0)
assert int(n[0]) == 5 and [int(e) for e in n] == [5, 6, -5] and n[0].size == 1 and n[0].shape == () and int(n[2].uraw()) == 2**32 - 5
if problems:
    print('element of a 128 bits array (stored code exact: {}):'.format(x[0].val))
    for p in problems: print('  ' + p)
    sys.exit(1)
sys.exit(0)
