"""BORDERLINE 2: a LIST of python integers beyond int64 stored (exactly) in a word of 64+ bits reads back as rounded floats
(vdtype becomes dtype('O')), while the same integers given as a scalar or as an object ndarray read back exactly; == on it is wrong.
Exits 1 if the behaviour is present."""
import sys
import numpy as np
from fxpmath import Fxp
a, b = 2**100 + 1, -(2**63) - 1
x = Fxp([a, b, 3], True, 128, 0)
assert x.val.tolist() == [a, b, 3] and x.bin()[0] == format(a, '0128b')     # stored and rendered (bin) exactly
problems = []
got = x().tolist()
if got != [a, b, 3] or not all(type(v) is int for v in got):
    problems.append('Fxp([a, b, 3], True, 128, 0)() = {!r}, expected [{}, {}, 3] (vdtype={!r})'.format(got, a, b, x.vdtype))
eq = (x == np.array([a, b, 3], dtype=object)).tolist()
if eq != [True, True, True]:
    problems.append('x == [a, b, 3] -> {}, expected [True, True, True]'.format(eq))
eq2 = (x == np.array([a - 1, b, 3], dtype=object)).tolist()
if eq2 != [False, True, True]:
    problems.append('x == [a - 1, b, 3] -> {}, expected [False, True, True]'.format(eq2))
# controls: the other carriers of the same integers read back exactly
s = Fxp(a, True, 128, 0)
o = Fxp(np.array([a, b, 3], dtype=object), True, 128, 0)
assert s() == a and type(s().item()) is int
assert o().tolist() == [a, b, 3]
if problems:
    for p in problems: print(p)
    sys.exit(1)
sys.exit(0)
