"""BORDERLINE 3: x[i] = [c] / x.set_val([c], raw=True, index=i) on an array of 64+ bits nests a 1-element ndarray inside the object
array of codes (narrower words raise ValueError 'setting an array element with a sequence'); bin()/hex() then return nested arrays.
Exits 1 if the behaviour is present."""
import sys
import numpy as np
from fxpmath import Fxp
c = 2**100 + 1
x = Fxp([1, 2, 3], True, 128, 0, raw=True)
try:
    x.set_val([c], raw=True, index=0)
except ValueError:
    sys.exit(0)       # rejected like at narrower words
codes = x.val.tolist()
if codes == [c, 2, 3] and all(type(v) is int for v in x.val):
    sys.exit(0)       # stored as the element
print('x.val after x.set_val([c], raw=True, index=0): {!r}'.format(x.val))
print('x.bin()[0]: {!r}'.format(x.bin()[0]))
try:
    Fxp([1, 2, 3], True, 32, 0, raw=True).set_val([5], raw=True, index=0); print('32 bits: accepted')
except ValueError as e:
    print('32 bits control: ValueError({})'.format(e))
sys.exit(1)
