"""C20 - chained indexed assignment does not write through for a 0-dimensional COMPLEX object.

x[...] is a basic (view) index; for a real scalar object and for complex arrays of any shape x[...][()] = v / x[...][...] = v
reach x, for a complex scalar object the write is lost silently.
Exits 1 when the violation is present, 0 otherwise.
"""
import sys
import numpy as np
from fractions import Fraction
from fxpmath import Fxp

def code(v, n_frac):            # exact code of a dyadic value (no rounding / overflow involved in this witness)
    q = Fraction(v) * 2**n_frac
    assert q.denominator == 1
    return int(q)

bad = []
for how in ('value', 'dtype-string'):
    for idx2 in ((), Ellipsis):
        x = Fxp(1 + 2j, True, 16, 4) if how == 'value' else Fxp(1.0, dtype='fxp-s16/4-complex')
        v = 3 + 1j
        x[...][idx2] = v                      # chained indexed assignment  x[i][j] = v  with i = Ellipsis
        got = complex(np.asarray(x.val).item())
        exp = complex(code(v.real, 4), code(v.imag, 4))      # 48 + 16j
        if got != exp:
            bad.append('complex scalar (%s): x[...][%r] = %r -> codes %r, expected %r; x reads %r' % (how, idx2, v, got, exp, x.get_val()))

# controls: the same chain on a real scalar and on a 1-element complex array writes through
xr = Fxp(1.5, True, 16, 4); xr[...][()] = 3
xa = Fxp([1 + 2j], True, 16, 4); xa[...][0] = 3 + 1j
controls_ok = int(np.asarray(xr.val).item()) == 48 and complex(xa.val[0]) == 48 + 16j

if bad:
    print('VIOLATION (C20, "indexing returns a view ... x[i][j]=v writes through to x"):')
    for b in bad: print('  ' + b)
    print('  controls (real scalar, 1-element complex array) write through: %s' % controls_ok)
    sys.exit(1)
print('ok: chained assignment reaches a complex scalar object')
sys.exit(0)
