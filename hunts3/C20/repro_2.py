"""C20 - chained indexed assignment does not write through for a REAL 0-dimensional object obtained from a right shift
(config.shifting = 'trunc' or 'keep'): its codes are a numpy scalar instead of a 0-d array, so y[...] is a copy.

Exits 1 when the violation is present, 0 otherwise.
"""
import sys
import numpy as np
from fxpmath import Fxp

bad = []
for shifting in ('trunc', 'keep'):
    x = Fxp(1.5, True, 16, 4, shifting=shifting)      # code 24
    y = x >> 1                                        # code 12 -> 0.75, same format fxp-s16/4
    y[...][()] = 3.0                                  # exact: 3.0 * 2**4 = 48, inside the s16 word
    got = int(np.asarray(y.val).item())
    if got != 48:
        bad.append("shifting=%r: y = x >> 1; y[...][()] = 3.0 -> code %d (y reads %r), expected code 48 (3.0); type(y.val) = %s"
                   % (shifting, got, y.get_val(), type(y.val).__name__))
# control: the operand itself (codes held in a 0-d array) takes the chained write
x = Fxp(1.5, True, 16, 4, shifting='trunc'); x[...][()] = 3.0
control_ok = int(np.asarray(x.val).item()) == 48
if bad:
    print('VIOLATION (C20, "indexing returns a view ... x[i][j]=v writes through to x"):')
    for b in bad: print('  ' + b)
    print('  control (same chain on the un-shifted object) writes through: %s' % control_ok)
    sys.exit(1)
print('ok')
sys.exit(0)
