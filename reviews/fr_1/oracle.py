from fractions import Fraction
import math
def rnd(q, method):
    # q Fraction
    if method in ('trunc','fix'):
        return math.trunc(q)
    if method == 'floor':
        return math.floor(q)
    if method == 'ceil':
        return math.ceil(q)
    if method == 'around':
        return round(q)  # ties to even for Fraction
    raise ValueError
def limits(signed, n_word):
    if signed:
        return -(1 << (n_word-1)), (1 << (n_word-1)) - 1
    return 0, (1 << n_word) - 1
def quant(v, signed, n_word, n_frac, rounding='trunc', overflow='saturate'):
    """returns code, over, under, inexact"""
    q = Fraction(v) * Fraction(2)**n_frac
    r = rnd(q, rounding)
    lo, hi = limits(signed, n_word)
    over = r > hi; under = r < lo
    if overflow == 'saturate':
        c = min(max(r, lo), hi)
    else:
        c = r % (1 << n_word)
        if signed and c >= (1 << (n_word-1)):
            c -= (1 << n_word)
    inexact = Fraction(c) / Fraction(2)**n_frac != Fraction(v)
    return c, over, under, inexact
