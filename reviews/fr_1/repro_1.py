# commit 35b42d2 (integer raw codes handed to set_val are not cast to the value type first)
# -x of an unsigned object (n_word < 64) with x > 0: the exact result -x lies BELOW the range of the unsigned format, so
# under saturate it has to be stored as the lower bound 0 with the underflow flag (C02: the bound on the input's own side,
# C04: underflow iff a rounded element was below the minimum).  __neg__ negates the uint64 codes (they wrap to 2**64 - code)
# and hands them to set_val(raw=True); the cast to the (signed) value type that used to re-interpret them as negative numbers
# is now skipped, so they are taken as huge positive codes: maximum stored, overflow flag raised.
import sys
import numpy as np
from fxpmath import Fxp

fails = []
for n_word, n_frac, codes in [(8, 0, [3]), (8, 4, [12, 0, 24]), (52, 0, [5]), (16, 8, [1, 65535])]:
    x = Fxp(np.array(codes, dtype=object) if len(codes) > 1 else codes[0], False, n_word, n_frac, raw=True)
    y = -x
    got = [int(v) for v in np.asarray(y.val, dtype=object).flatten()]
    exp = [0 for c in codes]                      # max(-c, 0) = 0 for every code c >= 0
    exp_under = any(c > 0 for c in codes)
    if got != exp or y.status['overflow'] or y.status['underflow'] != exp_under:
        fails.append('-Fxp(codes=%s, u%d/%d): stored codes %s (expected %s), overflow=%s (expected False), underflow=%s (expected %s)'
                     % (codes, n_word, n_frac, got, exp, y.status['overflow'], y.status['underflow'], exp_under))
if fails:
    print('\n'.join(fails)); sys.exit(1)
sys.exit(0)
