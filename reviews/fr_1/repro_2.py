# commit 457919a (python numbers held in an object array are rounded one by one as they are)
# An object array may also hold NumPy scalars.  Since the array is no longer cast to a common type, each element is multiplied
# by the python conversion factor 2**n_frac in ITS OWN type: a narrow numpy integer wraps around (np.int8(100) * 16 -> 64) or raises
# OverflowError (np.uint8(200) * 4096), a float16 overflows to inf.  Before the commit [2.5, np.int8(100)] stored 2.5 and 100.0.
# C01: the stored code is ROUND(v * 2**n_frac) whatever the carrier of the value.
import sys, warnings
import numpy as np
from fractions import Fraction
from fxpmath import Fxp
warnings.simplefilter('ignore')

def obj(*a):
    r = np.empty(len(a), dtype=object)
    for i, v in enumerate(a): r[i] = v
    return r

fails = []
cases = [((2.5, np.int8(100)), True, 16, 4),
         ((0.5, np.uint8(200)), True, 40, 12),
         ((np.int32(2**20), 0.5), True, 40, 12),
         ((0.5, np.float16(100)), True, 32, 12)]
for els, s, n, f in cases:
    exp = [int(Fraction(float(e)) * 2**f) for e in els]      # all values are exactly representable: no rounding, no overflow
    try:
        x = Fxp(obj(*els), s, n, f)
        got = [int(v) for v in x.val.flatten()]
        if got != exp or x.status['overflow'] or x.status['underflow'] or x.status['inaccuracy']:
            fails.append('Fxp(object array %r, s%d/%d): codes %s expected %s, status %s' % (els, n, f, got, exp, x.status))
    except Exception as e:
        fails.append('Fxp(object array %r, s%d/%d): raised %r, expected codes %s' % (els, n, f, e, exp))
if fails:
    print('\n'.join(fails)); sys.exit(1)
sys.exit(0)
