# commit c7b29cc (sum, cumsum, trace, prod and dot accumulate python integers when the accumulated raw result can leave 64 bits)
# dot of COMPLEX operands whose word lengths add up to 63 or more (two s32 operands) into a destination with fewer fraction bits
# than x.n_frac + y.n_frac (out=, out_like=, sizing='same') raises TypeError when the result is an array: _dot_raw now turns the
# complex128 codes into an object array of python complex numbers, and utils.scale_raw takes np.max / np.min of it.
import sys
import numpy as np
import fxpmath
from fxpmath import Fxp

X = [[1+2j, 3-1j], [0.5j, 2]]; Y = [[2-1j, 1+1j], [1, 1j]]
exp = np.dot(np.array(X), np.array(Y))      # small dyadic values: exact in complex128; representable in s40/8
fails = []
for label, call in [('out_like=s40/8', lambda x, y: fxpmath.dot(x, y, out_like=Fxp(0j, True, 40, 8))),
                    ('out=s40/8', lambda x, y: np.dot(x, y, out=Fxp(np.zeros((2, 2)) + 0j, True, 40, 8))),
                    ("sizing='same'", lambda x, y: fxpmath.dot(x, y, sizing='same'))]:
    for n_word in (16, 32):
        x = Fxp(X, True, n_word, 8); y = Fxp(Y, True, n_word, 8)
        try:
            z = call(x, y)
            got = np.asarray(z.val) / 2.0**z.n_frac      # (codes of a complex object: complex numbers with integer components)
            if not np.array_equal(got, exp):
                fails.append('dot(s%d/8 complex, s%d/8 complex, %s): %s expected %s' % (n_word, n_word, label, got.tolist(), exp.tolist()))
        except Exception as e:
            fails.append('dot(s%d/8 complex, s%d/8 complex, %s): raised %r, expected %s' % (n_word, n_word, label, e, exp.tolist()))
if fails:
    print('\n'.join(fails)); sys.exit(1)
sys.exit(0)
