# commit 2c02d22 (the value based ('repr') calculation uses python integers ...)
# (a) introduced: //, % and / of integer valued operands under method='repr' raise ZeroDivisionError for the WHOLE array as soon as one
#     divisor is 0 - but only when x.n_word + y.n_word >= 63 (python integers); narrower operands, and the 'raw' method at the same
#     widths, return an object (quotient 0).  The outcome of the same values depends on the word lengths and on the method.
#     (divisor 0 is outside the domain of C09; reported as a behaviour change)
# (b) left behind: the test x.n_word + y.n_word >= 63 does not see the magnitude of the values: integer valued operands with a negative
#     fraction length hold n_word - n_frac bits, so their product still wraps around in int64 (2**31 * 2**32 -> -2**63, no flag).
import sys, warnings
import numpy as np
import fxpmath
from fxpmath import Fxp
warnings.simplefilter('ignore')
fails = []
# (a)
for op in ('floordiv', 'mod'):
    res = {}
    for n in (16, 32):
        p = Fxp([5, 7], True, n, 0); q = Fxp([0, 2], True, n, 0)
        for m in ('raw', 'repr'):
            try:
                res[(n, m)] = [int(v) for v in getattr(fxpmath, op)(p, q, method=m).val]
            except Exception as e:
                res[(n, m)] = repr(e)
    if len(set(map(str, res.values()))) != 1:
        fails.append('%s([5, 7], [0, 2]) differs with word length / method: %s' % (op, res))
# (b)
a = Fxp(2**31, True, 25, -8); b = Fxp(2**32, True, 26, -8)
assert a() == 2**31 and b() == 2**32
z = fxpmath.mul(a, b, method='repr')                     # optimal size s51/-16 holds 2**63 exactly (code 2**47)
if int(z.val) != 2**47:
    fails.append("mul(2**31 in s25/-8, 2**32 in s26/-8, method='repr'): code %d in %s (value %r), expected code %d (value 2**63); status %s"
                 % (int(z.val), z.dtype, z(), 2**47, z.status))
z = fxpmath.mul(a, b, method='repr', out=Fxp(0, True, 16, 0))   # saturate: 2**63 is above the range -> 32767 with overflow
if int(z.val) != 32767 or not z.status['overflow'] or z.status['underflow']:
    fails.append("mul(2**31, 2**32, method='repr', out=s16/0 saturate): code %d status %s, expected 32767 with overflow only" % (int(z.val), z.status))
if fails:
    print('\n'.join(fails)); sys.exit(1)
sys.exit(0)
