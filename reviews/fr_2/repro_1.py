"""clip (commit ac75734): an integer bound that really clips, and whose raw value does not fit the numpy type of the codes, makes clip raise
(or saturate on the wrong side for a scalar operand).  Root cause: functions.py:726-727 casts the clipped python integers back to raw.dtype."""
import sys, warnings
import numpy as np
from fxpmath import Fxp
warnings.simplefilter('ignore')
fails = []

def check(label, make, exp_codes, exp_over, exp_under):
    try:
        z = make()
    except Exception as e:
        fails.append('%s: raised %r, expected codes %s (overflow=%s, underflow=%s)' % (label, e, exp_codes, exp_over, exp_under))
        return
    got = [int(v) for v in np.asarray(z.val).flatten().tolist()]
    if got != exp_codes or z.status['overflow'] != exp_over or z.status['underflow'] != exp_under:
        fails.append('%s: codes %s overflow=%s underflow=%s, expected codes %s overflow=%s underflow=%s' % (
            label, got, z.status['overflow'], z.status['underflow'], exp_codes, exp_over, exp_under))

# u4/2, values 0.5 1.0 3.5; min(v, -1) = -1 for every element; -1 * 2**2 = -4 < 0 -> saturated to code 0, underflow
u = lambda: Fxp([0.5, 1.0, 3.5], False, 4, 2)
check('np.clip(u4/2 array, None, -1)', lambda: np.clip(u(), None, -1), [0, 0, 0], False, True)
check('u4/2 array .clip(-3, -1)', lambda: u().clip(-3, -1), [0, 0, 0], False, True)
check('np.clip(u4/2 array, None, np.int64(-1))', lambda: np.clip(u(), None, np.int64(-1)), [0, 0, 0], False, True)
# scalar operand: no exception, but the wrong side
check('np.clip(u4/2 scalar 0.5, None, -1)', lambda: np.clip(Fxp(0.5, False, 4, 2), None, -1), [0], False, True)
# s8/2, values 0.5 1.0 -3.5; max(v, 2**61) = 2**61 for every element; 2**61 * 2**2 = 2**63 > 127 -> saturated to code 127, overflow
s = lambda: Fxp([0.5, 1.0, -3.5], True, 8, 2)
check('np.clip(s8/2 array, 2**61, None)', lambda: np.clip(s(), 2**61, None), [127, 127, 127], True, False)
check('np.clip(s8/2 array, None, -10**30)', lambda: np.clip(s(), None, -10**30), [-128, -128, -128], False, True)
check('np.clip(s8/2 array, [10**30, 0, 0], None)', lambda: np.clip(s(), [10**30, 0, 0], None), [127, 4, 0], True, False)

for f in fails:
    print('DEFECT', f)
sys.exit(1 if fails else 0)
