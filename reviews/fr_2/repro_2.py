"""clip (commit ac75734): a scalar (0-dimensional) operand whose code needs more than 53 bits loses its low bits although nothing is clipped,
and raises OverflowError for words of 64 bits and more.  Root cause: functions.py:725 - np.maximum on a 0-d object array returns a python
scalar, so the following np.minimum(python int, bound) is computed in float64 / C long."""
import sys, warnings
import numpy as np
from fxpmath import Fxp
warnings.simplefilter('ignore')
fails = []

def check(label, make, exp_code):
    try:
        z = make()
    except Exception as e:
        fails.append('%s: raised %r, expected code %d' % (label, e, exp_code)); return
    got = int(np.asarray(z.val).item())
    if got != exp_code:
        fails.append('%s: code %d, expected %d (the value lies inside the bounds: it must stay what it is)' % (label, got, exp_code))

c57 = 75468414560876979            # < 2**57
check('np.clip(u57/8 scalar, 0, None)', lambda: np.clip(Fxp(c57, False, 57, 8, raw=True), 0, None), c57)
check('np.clip(u57/8 scalar, np.float64(0), None)', lambda: np.clip(Fxp(c57, False, 57, 8, raw=True), np.float64(0), None), c57)
check('u57/0 scalar .clip(0.0, None)', lambda: Fxp(c57, False, 57, 0, raw=True).clip(0.0, None), c57)
c70 = 842226062341041714233        # < 2**70
check('np.clip(u70/0 scalar, 0, 2**70)', lambda: np.clip(Fxp(c70, False, 70, 0, raw=True), 0, 2**70), c70)
check('np.clip(u70/0 scalar, 0, None)', lambda: np.clip(Fxp(c70, False, 70, 0, raw=True), 0, None), c70)
check('np.clip(s70/0 scalar, None, 0)', lambda: np.clip(Fxp(-c70 // 4, True, 70, 0, raw=True), None, 0), -c70 // 4)
# (the same codes inside a 1-element array are handled exactly)

for f in fails:
    print('DEFECT', f)
sys.exit(1 if fails else 0)
