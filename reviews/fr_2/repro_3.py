"""scale_raw (commit 44a76cb): dropping fraction bits from a code of more than 53 bits now gives the exact code, but the write raises the
inaccuracy flag although the value is converted exactly.  Root cause: objects.py:999 compares the exact quotients (Fractions handed over by
utils.scale_raw, utils.py:485-490) with new_val/conv_factor, which is evaluated in float64."""
import sys, warnings
import numpy as np
from fxpmath import Fxp
warnings.simplefilter('ignore')
fails = []
code = 2**60 + 2                          # s62/1: value 2**59 + 1, an integer -> exactly representable in s62/0 as code 2**59 + 1

def check(label, z):
    got = int(np.asarray(z.val).item())
    if got != 2**59 + 1 or z.status['inaccuracy'] or z.status['overflow'] or z.status['underflow']:
        fails.append('%s: code %d (expected %d), status %s (expected no flag: the conversion is exact)' % (label, got, 2**59 + 1, z.status))

x = Fxp(code, True, 62, 1, raw=True); x.resize(True, 62, 0); check('resize(s62/1 -> s62/0)', x)
check('like()', Fxp(code, True, 62, 1, raw=True).like(Fxp(None, True, 62, 0)))
check('equal()', Fxp(None, True, 62, 0).equal(Fxp(code, True, 62, 1, raw=True)))
check('Fxp(x, like=)', Fxp(Fxp(code, True, 62, 1, raw=True), like=Fxp(None, True, 62, 0)))
for f in fails:
    print('DEFECT', f)
sys.exit(1 if fails else 0)
