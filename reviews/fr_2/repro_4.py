"""astype(int) / int() (commit b3a4aee): the integer reading was made exact for fraction lengths of 63 and more only; for a negative fraction
length the same statement (objects.py:1059-1062) still divides by the float factor 1/(1 << -n_frac), so codes of more than 53 bits are read
rounded to a double."""
import sys, warnings
import numpy as np
from fxpmath import Fxp
warnings.simplefilter('ignore')
fails = []
for (signed, n_word, n_frac, code) in [(False, 59, -1, 2**59 - 1), (True, 60, -3, -(2**58) - 1), (False, 57, -6, 98178557331728276), (True, 65, -4, 2**64 - 1)]:
    exp = code * 2**(-n_frac)             # value = code * 2**-n_frac is an integer: its floor is itself
    x = Fxp(code, signed, n_word, n_frac, raw=True)
    for label, f in (('int(x)', lambda: int(x)), ('x.astype(int)', lambda: int(np.asarray(x.astype(int)).item()))):
        try:
            got = f()
        except Exception as e:
            fails.append('%s of %s code %d: raised %r' % (label, x.dtype, code, e)); continue
        if got != exp:
            fails.append('%s of %s code %d: %d, expected %d' % (label, x.dtype, code, got, exp))
for f in fails:
    print('DEFECT', f)
sys.exit(1 if fails else 0)
