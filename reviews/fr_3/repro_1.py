"""commit f51f576 (scaled integer read in python integers): the fallback only works while bias (and scale) are *python* integers.
With a numpy integer bias - which the new isinstance(..., (int, np.integer)) test explicitly admits - a scalar / element read
still wraps around in int64: the 0-d object array times scale is a python int, and python int + np.int64 is computed in int64.
This is the commit's own example with bias=np.int64(...)."""
import sys, warnings
import numpy as np
warnings.simplefilter('ignore')
from fxpmath import Fxp

B = 2**63 - 2**11                       # exact double, fits in int64
fails = []

def check(label, got, exp):
    ok = (int(got) == exp) if not isinstance(got, str) else False
    if not ok:
        fails.append('%s: got %r, expected %d' % (label, got, exp))

def guarded(f):
    try:
        return f()
    except Exception as e:
        return 'EXC %s: %s' % (type(e).__name__, e)

# reference behaviour with a python bias (fixed by the commit)
check('python bias, scalar read', guarded(lambda: Fxp(2**63, True, 16, 0, bias=B)()), 2**63)
# same object, bias handed over as numpy integer
x = Fxp(2**63, True, 16, 0, bias=np.int64(B))
check('stored code', x.val, 2**11)                                   # (v - b)/s = 2048: the store is right
check('np.int64 bias, scalar read x()', guarded(lambda: x()), 2**11 + B)    # 2048*1 + B = 2**63
check('np.int64 bias, int(x)', guarded(lambda: int(x)), 2**63)
a = Fxp(None, True, 16, 0, bias=np.int64(B)); a.set_val([2**11, -5], raw=True)
check('np.int64 bias, element read a[0]()', guarded(lambda: a[0]()), 2**63)
check('np.int64 bias, a.get_val(index=0)', guarded(lambda: a.get_val(index=0)), 2**63)
check('np.int64 bias, a.get_val(item=0)', guarded(lambda: a.get_val(item=0)), 2**63)
r = guarded(lambda: bool(a[0] == 2**63))
if r is not True:
    fails.append('a[0] == 2**63: got %r, expected True' % (r,))

if fails:
    print('DEFECT (C17: reading returns s*code*2^-n_frac + b):')
    for f in fails: print('  ', f)
    sys.exit(1)
print('ok')
