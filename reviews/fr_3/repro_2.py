"""commit 8760a0f (indexed store into a value that is not an ndarray: scalar complex object "or an element taken out of an array"):
for an element taken out of an array of 64 or more bits the value is a python integer; np.array(python int) picks int64 (or uint64) from
the magnitude of the OLD value, so storing an in-range code that does not fit that type raises OverflowError
(and a code that fits leaves a np.int64 behind in a 64+ bits object)."""
import sys, warnings
import numpy as np
warnings.simplefilter('ignore')
from fxpmath import Fxp

fails = []
def wrap(c, s, n):
    c &= (1 << n) - 1
    return c - (1 << n) if s and c >> (n - 1) else c

cases = [
    # (signed, n_word, overflow, old code, stored python integer, expected code)
    (False, 128, 'saturate', 1, 1 << 126, 1 << 126),
    (False, 64,  'saturate', 1, (1 << 63) + 5, (1 << 63) + 5),
    (True,  100, 'saturate', 1, 1 << 98, 1 << 98),
    (True,  65,  'saturate', 1, 1 << 63, 1 << 63),
    (False, 64,  'wrap',     1 << 62, -7, wrap(-7, False, 64)),
    (False, 128, 'wrap',     1, (1 << 130) + (1 << 100) + 9, wrap((1 << 130) + (1 << 100) + 9, False, 128)),
    (False, 64,  'saturate', (1 << 63) + 1, 1 << 64, (1 << 64) - 1),     # old value makes a uint64 buffer
]
for s, n, ovf, old, v, exp in cases:
    for how in ('e[()] = v', 'e[...] = v', 'e.set_val(v, index=())', 'e.set_val(v, raw=True, index=())'):
        x = Fxp([old, 2], s, n, 0, overflow=ovf)
        e = x[0]
        try:
            if how == 'e[()] = v': e[()] = v
            elif how == 'e[...] = v': e[...] = v
            elif how == 'e.set_val(v, index=())': e.set_val(v, index=())
            else: e.set_val(v, raw=True, index=())
            got = int(e.val)
            if got != exp:
                fails.append('%s%d %s old=%d: %s with v=%d stored %d, expected %d' % ('s' if s else 'u', n, ovf, old, how, v, got, exp))
        except Exception as ex:
            fails.append('%s%d %s old=%d: %s with v=%d raised %s: %s (expected code %d)' % ('s' if s else 'u', n, ovf, old, how, v, type(ex).__name__, ex, exp))
        # the same store works on a scalar object and on the array itself
        y = Fxp(old, s, n, 0, overflow=ovf); y[()] = v
        assert int(y.val) == exp
        x[0] = v
        assert int(x.val[0]) == exp

if fails:
    print('DEFECT (C18 / C03: python integers are stored bit-exactly, saturated or wrapped exactly, in words of 64+ bits):')
    for f in fails[:12]: print('  ', f)
    print('   ... %d failures' % len(fails))
    sys.exit(1)
print('ok')
