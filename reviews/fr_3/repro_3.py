"""commit 8760a0f: x[()] = v on a scalar complex object now succeeds, but when v is a python integer and n_frac < 0 the object is left
unreadable: the value type becomes int while the code stays complex, and reading an int value with n_frac != 0 floor-divides the complex code.
(The array path x[i] = v has the same hole, the commit made the scalar one reachable.)"""
import sys, warnings
import numpy as np
warnings.simplefilter('ignore')
from fxpmath import Fxp

fails = []
for how in ('x[()] = 12', 'x[...] = 12', 'x.set_val(12, index=())', 'x.equal(12, index=())'):
    x = Fxp(8 + 4j, True, 8, -2)          # LSB = 4
    if how == 'x[()] = 12': x[()] = 12
    elif how == 'x[...] = 12': x[...] = 12
    elif how == 'x.set_val(12, index=())': x.set_val(12, index=())
    else: x.equal(12, index=())
    code = complex(x.val)
    if code != 3 + 0j:
        fails.append('%s: code %r, expected 3+0j' % (how, code))
    for rd, f in (('x()', lambda: x()), ('x.get_val()', lambda: x.get_val()), ('repr(x)', lambda: repr(x)), ('str(x)', lambda: str(x))):
        try:
            r = f()
            if rd in ('x()', 'x.get_val()') and complex(r) != 12 + 0j:
                fails.append('%s then %s: %r, expected 12 (code 3 * 2**2)' % (how, rd, r))
        except Exception as ex:
            fails.append('%s then %s raised %s: %s (expected 12 = code 3 * 2**2)' % (how, rd, type(ex).__name__, str(ex)[:70]))
# the real analogue is fine
y = Fxp(8.0, True, 8, -2); y[()] = 12
assert int(y.val) == 3 and y() == 12

if fails:
    print('DEFECT (C01: the value read back is code*2^-n_frac, whatever carrier / route stored it):')
    for f in fails: print('  ', f)
    sys.exit(1)
print('ok')
