"""commit fcc66c6 ("an element taken from an array of 64 or more bits is a usable object again, and so is the result of a non-expanding >>"):
only the dtype string was guarded. The value of such an object is a python integer, and the shift operators (and np.left_shift / np.right_shift,
which commit 3610f08 routes to them) still read self.val.dtype, so shifting an element, or shifting the result of a non-expanding >> once more,
raises AttributeError. (Word lengths of 64+ are outside the stated domain of C14; reported as a left-over of the commit's own claim.)"""
import sys, warnings
import numpy as np
warnings.simplefilter('ignore')
from fxpmath import Fxp

fails = []
def attempt(label, f, exp):
    try:
        r = f()
        got = int(r.val)
        if got != exp: fails.append('%s: code %d, expected %d' % (label, got, exp))
    except Exception as ex:
        fails.append('%s raised %s: %s (expected code %d)' % (label, type(ex).__name__, ex, exp))

for n in (64, 100):
    x = Fxp([40, 2], True, n, 0, shifting='trunc')
    attempt('s%d trunc: x[0] >> 1' % n, lambda: x[0] >> 1, 20)
    attempt('s%d trunc: x[0] << 1' % n, lambda: x[0] << 1, 80)
    attempt('s%d trunc: np.right_shift(x[0], 1)' % n, lambda: np.right_shift(x[0], 1), 20)
    s = Fxp(40, True, n, 0, shifting='trunc')
    attempt('s%d trunc: (s >> 1) >> 1' % n, lambda: (s >> 1) >> 1, 10)
    attempt('s%d trunc: (s >> 1) << 1' % n, lambda: (s >> 1) << 1, 40)
    xe = Fxp([40, 2], True, n, 0)     # expand mode
    attempt('s%d expand: x[0] << 3' % n, lambda: xe[0] << 3, 320)
    attempt('s%d expand: x[0] >> 3' % n, lambda: xe[0] >> 3, 5)

if fails:
    print('DEFECT (left-over of fcc66c6; C14 semantics at 64+ bits):')
    for f in fails: print('  ', f)
    sys.exit(1)
print('ok')
