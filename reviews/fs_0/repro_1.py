"""
repro_1 - commit 1ea12bd ("unsigned raw codes handed to set_val are re-interpreted as signed integers again")

Raw integer codes in [2**63, 2**64) reach set_val as a NumPy uint64 array whenever they are supplied
  * as a list / tuple of python integers ( np.array([2**63 + 5]).dtype == uint64 ), or
  * as a Decimal (converted to a raw python integer internally; np.array(int) is uint64 in that interval), or
  * by a 0-dimensional source of 64 or more bits (Fxp -> Fxp conversion: utils.scale_raw returns the python integer of the
    0-d object array and np.array(<python int in [2**63, 2**64)>) is uint64 as well).
The new branch `elif raw and val.dtype.kind == 'u': val = val.astype(np.int64)` turns these genuine positive codes into
negative ones: under saturate the OPPOSITE bound is stored, and in both overflow modes the underflow flag is raised instead of
the overflow flag.

Oracle (python integers only): code = clamp(c, lo, hi); overflow iff c > hi; underflow iff c < lo.
"""
import sys, warnings
import numpy as np
warnings.simplefilter('ignore')
from fxpmath import Fxp

def limits(signed, n_word):
    return (-(1 << (n_word - 1)), (1 << (n_word - 1)) - 1) if signed else (0, (1 << n_word) - 1)

def oracle(c, signed, n_word, overflow):
    lo, hi = limits(signed, n_word)
    if overflow == 'saturate':
        code = min(max(c, lo), hi)
    else:
        m = 1 << n_word
        code = c % m
        if signed and code >= m // 2:
            code -= m
    return code, c > hi, c < lo

fails = []
def check(label, y, c, signed, n_word, overflow):
    code, ovf, unf = oracle(c, signed, n_word, overflow)
    got = [int(v) for v in np.asarray(y.val).ravel()]
    st = (bool(y.status['overflow']), bool(y.status['underflow']))
    if got != [code] * len(got) or st != (ovf, unf):
        fails.append('%s: stored %r flags(overflow, underflow)=%r; expected %r flags %r' % (label, got, st, [code] * len(got), (ovf, unf)))

c = 2**63 + 5
for signed, n_word in ((False, 8), (True, 16), (False, 52), (True, 52)):
    for overflow in ('saturate', 'wrap'):
        tag = '%s%d/0 %s' % ('s' if signed else 'u', n_word, overflow)
        # python integers in a list / tuple, as raw codes: constructor, set_val, indexed store
        check('Fxp([c], raw=True) ' + tag, Fxp([c], signed, n_word, 0, raw=True, overflow=overflow), c, signed, n_word, overflow)
        check('set_val((c, c), raw=True) ' + tag, Fxp([0, 0], signed, n_word, 0, overflow=overflow).set_val((c, c), raw=True), c, signed, n_word, overflow)
        y = Fxp([0], signed, n_word, 0, overflow=overflow); y.set_val([c], raw=True, index=slice(0, 1))
        check('set_val([c], raw=True, index=slice(0,1)) ' + tag, y, c, signed, n_word, overflow)
        # conversion of a scalar source of 70 bits holding the same code (constructor, call, indexed assignment)
        w = Fxp(c, False, 70, 0, raw=True)
        assert int(w.val) == c
        check('Fxp(wide_scalar) ' + tag, Fxp(w, signed, n_word, 0, overflow=overflow), c, signed, n_word, overflow)
        check('narrow(wide_scalar) ' + tag, Fxp(0, signed, n_word, 0, overflow=overflow)(w), c, signed, n_word, overflow)
        y = Fxp([0], signed, n_word, 0, overflow=overflow); y[0] = w
        check('narrow[0] = wide_scalar ' + tag, y, c, signed, n_word, overflow)

# a Decimal value (converted internally to a raw python integer): Decimal(2**40) * 2**23 == 2**63, far above the range of fxp-s32/23
from decimal import Decimal
for signed in (True, False):
    check('Fxp(Decimal(2**40), %s, 32, 23) saturate' % signed, Fxp(Decimal(2**40), signed, 32, 23), 2**63, signed, 32, 'saturate')

if fails:
    print('DEFECT PRESENT (%d discrepancies)' % len(fails))
    for f in fails:
        print('  ' + f)
    sys.exit(1)
print('ok')
sys.exit(0)
