"""
repro_2 - commit c44fa81 ("an indexed store into an element taken out of an array of 64 or more bits (e = x[0]; e[()] = v) keeps
python integers")

objects.py set_val(), store by index into an object whose value is not an ndarray (an element taken out of an array):
    _val = np.array(self.val, dtype=object if (val_dtype == object or isinstance(self.val, int)) else None)
    _val[index] = new_val
    self.val = _val[()]
`val_dtype == object` does not only hold for words of 64+ bits: it also holds for ANY narrow format whenever the input is large
(a python integer >= 2**63, a float >= 2**64, or |v|*2**n_frac >= 2**63).  For an element of a narrow array the temporary is now an
OBJECT array, so `e[...] = 2**70` leaves `e.val` a plain python `int` (before the commit: numpy.int64).  The code and the flags
are right, but the object is broken: int(e), float(e), bool(e), e << n, e >> n, np.sum(e), e[()], e.shape / e.size / e.ndim raise.

Oracle: 2**70 saturates to the upper bound 127 of fxp-s8/0 (overflow flag); int() = 127, float() = 127.0, bool() = True,
(e << 1) = 254 (expand mode), (e >> 1) = 63.5.
"""
import sys, warnings
import numpy as np
warnings.simplefilter('ignore')
from fxpmath import Fxp

fails = []
for signed, v, code in ((True, 2**70, 127), (False, 2**70, 255), (True, -2**70, -128), (True, 2.0**70, 127)):
    x = Fxp([1, 2, 3], signed, 8, 0)
    e = x[0]
    e[...] = v                      # indexed assignment of a big python integer / float into the element
    if int(np.asarray(e.val)) != code:
        fails.append('stored code %r, expected %r' % (e.val, code))
    if not isinstance(e.val, (np.ndarray, np.generic)):
        fails.append('signed=%s v=%r: e.val is a %s (a numpy scalar / 0-d array before the commit)' % (signed, v, type(e.val).__name__))
    checks = [('int(e)', lambda: int(e), code), ('float(e)', lambda: float(e), float(code)), ('bool(e)', lambda: bool(e), code != 0),
              ('(e << 1)()', lambda: float((e << 1)()), 2.0 * code), ('(e >> 1)()', lambda: float((e >> 1)()), code / 2.0),
              ('np.sum(e)()', lambda: float(np.sum(e)()), float(code)), ('e[()]()', lambda: float(e[()]()), float(code)),
              ('e.size', lambda: e.size, 1), ('e.shape', lambda: e.shape, ())]
    for name, f, expected in checks:
        try:
            got = f()
            if got != expected:
                fails.append('signed=%s v=%r: %s = %r, expected %r' % (signed, v, name, got, expected))
        except Exception as ex:
            fails.append('signed=%s v=%r: %s raised %s: %s (expected %r)' % (signed, v, name, type(ex).__name__, ex, expected))

if fails:
    print('DEFECT PRESENT (%d discrepancies)' % len(fails))
    for f in fails:
        print('  ' + f)
    sys.exit(1)
print('ok')
sys.exit(0)
