"""
repro_3 - commit c44fa81 (same line as repro_2: objects.py set_val(), `_val = np.array(self.val, dtype=object if (val_dtype == object ...`)

A REAL value stored by index into a scalar complex object (or into a complex element taken out of an array) must leave the object
complex (value v+0j, dtype string with the -complex suffix).  That holds for ordinary values, but as soon as the input is large
enough for `val_dtype == object` (python integer >= 2**63, float >= 2**64, or |v|*2**n_frac >= 2**63) the temporary is an object
array, the complex value is replaced by a real integer, and the object silently becomes REAL: dtype 'fxp-s16/0' instead of
'fxp-s16/0-complex', vdtype int, real read-back.  Before the commit the temporary was complex128 and the object stayed complex.

Oracle: 2**70 saturates to the upper bound: code 32767 (+0j), overflow flag, dtype 'fxp-s16/0-complex', read back (32767+0j).
The same store of 2**62 (below the threshold) behaves correctly - the outcome depends on the magnitude of an out-of-range input.
"""
import sys, warnings
import numpy as np
warnings.simplefilter('ignore')
from fxpmath import Fxp

fails = []
makers = [('scalar complex object', lambda: Fxp(1 + 2j, True, 16, 0)),
          ('complex element x[0]', lambda: Fxp([1 + 2j, 3 - 1j], True, 16, 0)[0]),
          ('scalar complex object s16/8', lambda: Fxp(1 + 2j, True, 16, 8))]
for label, mk in makers:
    for v in (2**62, 2**70, -2**70, 2.0**70):
        for idx in ((), Ellipsis):
            xc = mk()
            n_frac = xc.n_frac
            assert xc.dtype.endswith('-complex')
            xc[idx] = v
            code = 32767 if v > 0 else -32768
            tag = '%s, [%s] = %r' % (label, 'Ellipsis' if idx is Ellipsis else '()', v)
            exp_dtype = 'fxp-s16/%d-complex' % n_frac
            if xc.dtype != exp_dtype:
                fails.append('%s: dtype %r, expected %r' % (tag, xc.dtype, exp_dtype))
            if not (isinstance(xc.val, (np.ndarray, np.generic)) and np.asarray(xc.val).dtype.kind == 'c'):
                fails.append('%s: stored value %r of type %s is not complex any more' % (tag, xc.val, type(xc.val).__name__))
            try:
                got = complex(xc())
                if got != complex(code / 2.0**n_frac, 0) or not isinstance(xc(), (complex, np.complexfloating, np.ndarray)) \
                        or np.asarray(xc()).dtype.kind != 'c':
                    fails.append('%s: read back %r, expected %r' % (tag, xc(), complex(code / 2.0**n_frac, 0)))
            except Exception as ex:
                fails.append('%s: read raised %r' % (tag, ex))
            st = (bool(xc.status['overflow']), bool(xc.status['underflow']))
            if st != (v > 0, v < 0):
                fails.append('%s: flags %r' % (tag, st))

# words of 64+ bits: there `val_dtype == object` always holds, so ANY real value written by index makes a scalar complex object real
for label, mk in (('scalar complex object s70/0', lambda: Fxp(1 + 2j, True, 70, 0)), ('complex element s70/0', lambda: Fxp([1 + 2j, 3j], True, 70, 0)[0])):
    xc = mk()
    xc[()] = 5
    if xc.dtype != 'fxp-s70/0-complex' or np.asarray(xc.val).dtype.kind != 'c':
        fails.append('%s, [()] = 5: dtype %r value %r (%s), expected fxp-s70/0-complex and (5+0j)' % (label, xc.dtype, xc.val, type(xc.val).__name__))

if fails:
    print('DEFECT PRESENT (%d discrepancies)' % len(fails))
    for f in fails:
        print('  ' + f)
    sys.exit(1)
print('ok')
sys.exit(0)
