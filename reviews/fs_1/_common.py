import sys, warnings, math
from fractions import Fraction
import numpy as np
warnings.simplefilter('ignore')
import fxpmath
assert fxpmath.__file__.startswith('/tmp/fs_1/'), fxpmath.__file__
from fxpmath import Fxp

def oa(*items):
    """1-D object array holding exactly these python / numpy objects"""
    a = np.empty(len(items), dtype=object); a[:] = list(items); return a

def F(v):
    return Fraction(v.item() if isinstance(v, np.generic) else v)

def trunc_code(v, n_frac):
    q = Fraction(v) * Fraction(2)**n_frac
    return math.floor(q) if q >= 0 else math.ceil(q)

def codes(x):
    return [int(c) for c in np.asarray(x.val).ravel()]

class Report:
    def __init__(self): self.bad = 0
    def check(self, label, observed, expected):
        if observed != expected:
            self.bad += 1
            print('DEFECT  %s\n        observed: %r\n        expected: %r' % (label, observed, expected))
        else:
            print('ok      %s: %r' % (label, observed))
    def exc(self, label, e, expected):
        self.bad += 1
        print('DEFECT  %s\n        raised  : %s: %s\n        expected: %r' % (label, type(e).__name__, e, expected))
    def done(self):
        sys.exit(1 if self.bad else 0)
