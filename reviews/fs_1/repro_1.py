# commit ceca81e (left behind): NumPy scalars held in an object array are still combined with scale / bias in their own narrow type
# (the conversion to python numbers happens in set_val, after _format_inupt_val has already done `val - bias` and `val / scale`)
from _common import *
r = Report()
# C17 / C01: store (v - b)/s quantized. s16/4, trunc, saturate, scale=1, bias=-100:  v=100 -> (100+100)*16 = 3200 ; v=0.5 -> 100.5*16 = 1608
for label, arr, kw in [
    ('int8 next to a float, bias=-100', oa(np.int8(100), 0.5), dict(bias=-100)),
    ('int8 only, bias=-100',            oa(np.int8(100), np.int8(5)), dict(bias=-100)),
    ('int8, scale=0.25 bias=100',       oa(np.int8(-77), -143.625), dict(scale=0.25, bias=100)),
    ('uint8, bias=-100 (valid input)',  oa(np.uint8(163), 2), dict(bias=-100)),
    ('list [np.int8, 2**70] (numpy makes it an object array), bias=-100, wrap', [np.int8(100), 2**70], dict(bias=-100, overflow='wrap')),
]:
    s, b = kw.get('scale', 1), kw.get('bias', 0)
    n_word = 32
    exp = []
    for v in arr:
        c = trunc_code((F(v) - F(b)) / F(s), 4)
        if kw.get('overflow') == 'wrap': c = (c + 2**(n_word-1)) % 2**n_word - 2**(n_word-1)
        exp.append(c)
    try:
        x = Fxp(arr, True, n_word, 4, **kw)
        r.check(label + ': codes', codes(x), exp)
        # same values in a plain (non-object) carrier are stored correctly:
    except Exception as e:
        r.exc(label, e, exp)
# the other store routes
x = Fxp([0, 0], True, 32, 4, bias=-100); x[:] = oa(np.int8(100), 0.5); r.check('indexed assignment', codes(x), [3200, 1608])
x = Fxp([0, 0], True, 32, 4, bias=-100); x(oa(np.int8(100), 0.5));    r.check('call', codes(x), [3200, 1608])
r.done()
