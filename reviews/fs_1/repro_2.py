# commit ceca81e (left behind): the elements of an object array are turned into python numbers, but the value type (vdtype) is still taken from
# the first element as it was (objects.py:709 `vdtype = type(val.item(0))`): np.float16 / np.float32 / np.int8 ... become the type in which
# values are read back (and to which values are cast in later conversions)
from _common import *
r = Report()
# C01: value read back is exactly code * 2**-n_frac
x = Fxp(oa(np.float32(1.5), 2000000.0625), True, 32, 4)
r.check('codes float32-first', codes(x), [24, 32000001])
r.check('read back float32-first', [Fraction(float(v)) for v in x.get_val()], [Fraction(24, 16), Fraction(32000001, 16)])
x = Fxp(oa(np.float16(23.25), np.int16(32767)), False, 27, 11)
r.check('codes float16-first', codes(x), [47616, 32767 * 2048])
r.check('read back float16-first', [Fraction(float(v)) for v in x.get_val()], [Fraction(93, 4), Fraction(32767)])
x = Fxp(oa(np.float16(1.5), 700358), True, 24, 0)
r.check('read back float16-first, 24 bits integer (inf?)', [str(v) for v in x()], ['1.0', '700358.0'])
# other routes
x = Fxp([0, 0], True, 32, 4); x[:] = oa(np.float32(1.5), 2000000.0625)
r.check('read back after indexed store', [Fraction(float(v)) for v in x.get_val()], [Fraction(3, 2), Fraction(32000001, 16)])
r.done()
