# commit ceca81e (left behind), same root as repro_2: vdtype = np.int8 taken from the first element of the object array; a later conversion
# that goes through values (scaled source or destination) casts the values to int8: silent wrap-around
from _common import *
r = Report()
x = Fxp(oa(np.int8(100), 300), True, 16, 0)
r.check('source codes', codes(x), [100, 300])
# C10 / C17: destination s32/0 with bias=1 stores (v - 1): 99 and 299, reads back 100 and 300; source unchanged
y = Fxp(x, True, 32, 0, bias=1)
r.check('Fxp(x, ..., bias=1) codes', codes(y), [99, 299])
r.check('Fxp(x, ..., bias=1) values', [int(v) for v in y.get_val()], [100, 300])
y = Fxp([0, 0], True, 32, 0, bias=1); y[:] = x
r.check('y[:] = x codes', codes(y), [99, 299])
y = Fxp([0, 0], True, 32, 0, bias=1); y.equal(x)
r.check('y.equal(x) codes', codes(y), [99, 299])
xs = Fxp(oa(np.int8(100), 300), True, 16, 0, bias=1)      # scaled source
r.check('scaled source codes', codes(xs), [99, 299])
y = Fxp(xs, True, 32, 0)
r.check('Fxp(scaled source) codes', codes(y), [100, 300])
r.check('source left alone', codes(x), [100, 300])
r.done()
