# commit ceca81e (left behind): size inference (set_best_sizes) still scales the NumPy scalars of an object array in their own narrow type
# objects.py:584 `val_max = int(np.max(val)*(1 << n_frac))`  -> np.int8(100) * 2 wraps
from _common import *
r = Report()
def fmt(x): return (x.signed, x.n_word, x.n_frac)
def flags(x): return {k: bool(x.status[k]) for k in ('overflow', 'underflow', 'inaccuracy')}
NOFLAG = dict(overflow=False, underflow=False, inaccuracy=False)
# C06: [100, 0.5]: 1 fraction bit, 7 integer bits, sign -> s9/1, codes [200, 1], no flag.  (Fxp(oa(100, 0.5)) and Fxp([100, 0.5]) do give that)
for label, arr, kw, efmt, ecodes in [
    ('[np.int8(100), 0.5]',            oa(np.int8(100), 0.5), {}, (True, 9, 1), [200, 1]),
    ('[np.uint8(200), 0.25] unsigned', oa(np.uint8(200), 0.25), dict(signed=False), (False, 10, 2), [800, 1]),
    ('[np.int16(20000), 0.25]',        oa(np.int16(20000), 0.25), {}, (True, 18, 2), [80000, 1]),
    ('[np.int8(100), 0.5] n_frac=4',   oa(np.int8(100), 0.5), dict(n_frac=4), (True, 12, 4), [1600, 8]),
]:
    try:
        x = Fxp(arr, **kw)
        r.check(label + ' format', fmt(x), efmt)
        r.check(label + ' codes', codes(x), ecodes)
        r.check(label + ' flags', flags(x), NOFLAG)
    except Exception as e:
        r.exc(label, e, (efmt, ecodes))
try:
    x = Fxp(oa(np.float16(1000), 0.001953125))       # 1000 + 2**-9: s20/9
    r.check('[np.float16(1000), 2**-9] format', fmt(x), (True, 20, 9))
except Exception as e:
    r.exc('[np.float16(1000), 2**-9]', e, (True, 20, 9))
r.done()
