# commit bc4fbf0 (left behind): a real value written by index into a complex object now leaves vdtype complex, but the real branch of set_val
# (objects.py:945-946) still does `self.real = self.get_val(); self.imag = 0` for the whole object: after x[0] = 5 the attribute x.imag is the
# scalar 0 although element 1 still stores an imaginary code of 64 (4.0), and x.real is a complex array
from _common import *
r = Report()
x = Fxp([1+2j, 3+4j], True, 16, 4)
r.check('before: real', np.asarray(x.real).tolist(), [1.0, 3.0])
r.check('before: imag', np.asarray(x.imag).tolist(), [2.0, 4.0])
x[0] = 5
# stored codes: [80+0j, 48+64j]  ->  components read back code * 2**-4: real [5, 3], imag [0, 4]
r.check('codes', [(int(c.real), int(c.imag)) for c in x.val], [(80, 0), (48, 64)])
r.check('dtype', x.dtype, 'fxp-s16/4-complex')
r.check('after x[0] = 5: imag', np.asarray(x.imag).tolist(), [0.0, 4.0])
r.check('after x[0] = 5: real', np.asarray(x.real).tolist(), [5.0, 3.0])
r.check('after x[0] = 5: real is real', np.asarray(x.real).dtype.kind, 'f')
# a complex value written the same way keeps them right (route dependence):
y = Fxp([1+2j, 3+4j], True, 16, 4); y[0] = 5+0j
r.check('after y[0] = 5+0j: imag', np.asarray(y.imag).tolist(), [0.0, 4.0])
r.done()
