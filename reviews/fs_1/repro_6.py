# commit 25845cf (left behind): numpy-integer scale / bias are used as python integers only if BOTH parameters are integers; a narrow numpy
# integer scale next to a float bias is still multiplied in its own type when the code read is a python integer (item=...)
from _common import *
r = Report()
x = Fxp([30000.5, 200.5], True, 16, 0, scale=np.int8(100), bias=0.5)
r.check('codes', codes(x), [300, 2])
r.check('get_val()', [Fraction(float(v)) for v in x.get_val()], [Fraction(60001, 2), Fraction(401, 2)])
# C17: reading returns s * code * 2**-n_frac + b = 100 * 300 + 0.5 = 30000.5 whatever the route
for label, f in [('astype(int, item=0)', lambda: x.astype(int, item=0)), ('get_val(int, item=0)', lambda: x.get_val(int, item=0)),
                 ('astype(int, index=0)', lambda: x.astype(int, index=0))]:
    try:
        r.check(label, Fraction(float(f())), Fraction(60001, 2))
    except Exception as e:
        r.exc(label, e, 30000.5)
try:
    r.check('astype(int, item=1) (silent)', Fraction(float(x.astype(int, item=1))), Fraction(401, 2))
except Exception as e:
    r.exc('astype(int, item=1)', e, 200.5)
# with an integer bias the same read works (this is what the commit repaired):
x = Fxp([30000, 200], True, 16, 0, scale=np.int8(100), bias=0)
r.check('integer bias: astype(int, item=0)', Fraction(float(x.astype(int, item=0))), Fraction(30000))
r.done()
