# commit af8fc32 (regression, outside the stated domains of C15/C19 - see report): the value based ('repr') calculation used to move integer
# values of wide operands to python integers for EVERY function; now only for add / subtract / multiply. dot (and power) of integer operands
# whose result leaves 64 bits wrap around silently in int64 again (method='repr', or any scaled operand - that forces the value based path)
from _common import *
import fxpmath.functions as FF
r = Report()
m = 2**32 - 1
x = Fxp([m, m], True, 34, 0); y = Fxp([m, m], True, 34, 0)
z = FF.dot(x, y, method='raw');  r.check("dot raw", int(z.val), 2 * m * m)
z = FF.dot(x, y, method='repr'); r.check("dot repr", int(z.val), 2 * m * m)
r.check("dot repr flags", (bool(z.status['overflow']), bool(z.status['underflow'])), (False, False))
xs = Fxp([m + 1, m + 1], True, 34, 0, bias=1)        # scaled operand: stored codes m, values m + 1
z = np.dot(xs, y); r.check("np.dot(scaled, y)", int(z.val), 2 * (m + 1) * m)
z = FF.pow(Fxp(2**31, True, 33, 0), Fxp(3, False, 2, 0), method='repr'); r.check("pow repr", int(z.val), 2**93)
r.done()
