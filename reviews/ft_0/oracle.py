from fractions import Fraction
import math

def rnd(q, method):
    # q Fraction -> int
    if method in ('trunc', 'fix'):
        return math.trunc(q)
    if method == 'floor':
        return math.floor(q)
    if method == 'ceil':
        return math.ceil(q)
    if method == 'around':
        return round(q)   # ties to even for Fraction
    raise ValueError(method)

def lims(signed, n_word):
    if signed:
        return -(1 << (n_word - 1)), (1 << (n_word - 1)) - 1
    return 0, (1 << n_word) - 1

def ovf(k, signed, n_word, overflow):
    lo, hi = lims(signed, n_word)
    if overflow == 'saturate':
        return min(max(k, lo), hi)
    m = 1 << n_word
    k = k % m
    if signed and k >= m >> 1:
        k -= m
    return k

def quant(v, signed, n_word, n_frac, rounding='trunc', overflow='saturate'):
    """returns code, over, under, inexact"""
    v = Fraction(v)
    q = v * Fraction(2) ** n_frac
    k = rnd(q, rounding)
    lo, hi = lims(signed, n_word)
    code = ovf(k, signed, n_word, overflow)
    return code, k > hi, k < lo, Fraction(code) / Fraction(2) ** n_frac != v

ROUND = ['trunc', 'fix', 'floor', 'ceil', 'around']
OVER = ['saturate', 'wrap']
