"""Commit 886d029 (bias subtraction with python integers when the bias is close to the 64 bits limits).

The guard added by the commit is
    max(abs(int(np.max(val))), abs(int(np.min(val))), abs(self.bias)) >= 2**62
abs() of the NumPy integer np.int64(-2**63) wraps around to -2**63 (RuntimeWarning: overflow encountered in scalar absolute),
so the guard is False, the subtraction `val - self.bias` is done in int64 and wraps around: the opposite bound is stored.

C17 / C02: storing v into an object with scale s and bias b stores the C01 quantization of (v - b)/s;
under saturate an out-of-range input is stored as the bound on the input's own side.
    v = 0, s = 1, b = -2**63  ->  (v - b)/s = 2**63 (an exact double)  ->  s16/0 saturate: code 32767, overflow flag
"""
import sys, warnings
import numpy as np
from fxpmath import Fxp

warnings.simplefilter('ignore')
bad = []

def check(label, x, exp_codes, exp_over, exp_under):
    got = [int(c) for c in np.asarray(x.val).ravel().tolist()]
    flags = (x.status['overflow'], x.status['underflow'])
    if got != exp_codes or flags != (exp_over, exp_under):
        bad.append('%s: codes %s (expected %s), overflow/underflow %s (expected %s)' % (label, got, exp_codes, flags, (exp_over, exp_under)))

b = np.int64(-2**63)
# oracle: (v - b) / 1 = v + 2**63 >= 2**63 - 32768 > 32767  -> saturates at the upper bound 32767, overflow
check('ctor scalar 0', Fxp(0, True, 16, 0, bias=b), [32767], True, False)
check('ctor array', Fxp(np.array([0, 5, -7]), True, 16, 0, bias=b), [32767] * 3, True, False)
x = Fxp(None, True, 16, 0, bias=b); x.reset(); x.set_val(12)
check('set_val', x, [32767], True, False)
x = Fxp(np.array([-2**63, -2**63]), True, 16, 0, bias=b); x.reset(); x[1] = 0
check('setitem', x, [0, 32767], True, False)
# the same parameters as python integers are handled correctly (control)
check('control: python int bias', Fxp(0, True, 16, 0, bias=-2**63), [32767], True, False)
# wrap: (0 + 2**63) mod 2**16 = 0 - and an in-range control value: v = -2**63 + 5 -> 5
xw = Fxp(np.array([-2**63 + 5]), True, 16, 0, bias=b)
check('in range', xw, [5], False, False)

if bad:
    print('DEFECT (bias=np.int64(-2**63): int64 wrap-around in the bias subtraction)')
    for l in bad: print('  ', l)
    sys.exit(1)
print('ok')
sys.exit(0)
