"""Commit dd250d3 (like() returns x.deepcopy().set_val(...)): the deep copy of the TEMPLATE carries the template's status
record, so the converted object reports the overflow / underflow / inaccuracy that once happened to the template,
although its own (only) write was exact and in range.

C04: a write raises the overflow flag iff some rounded element exceeded the format's maximum ... (flags report exactly what happened)
C10: every conversion route gives one and the same result  (Fxp(src, like=t) and t2.set_val(src) give clean flags)
"""
import sys, warnings
from fxpmath import Fxp
warnings.simplefilter('ignore')

t = Fxp(100.3, True, 4, 0)           # template: 100.3 overflowed and was inexact in s4/0 -> its flags are raised
assert t.status['overflow'] and t.status['inaccuracy']
src = Fxp(1, True, 8, 0)             # value 1: exactly representable in s4/0, no flag
assert not any(src.status[k] for k in ('overflow', 'underflow', 'inaccuracy'))

y = src.like(t)
y_ctor = Fxp(src, like=t)            # same conversion by another route
exp = {'overflow': False, 'underflow': False, 'inaccuracy': False}
got = {k: y.status[k] for k in exp}
got_ctor = {k: y_ctor.status[k] for k in exp}
bad = []
if int(y.val) != 1: bad.append('code %r != 1' % (y.val,))
if got != exp: bad.append('src.like(t).status = %s, expected %s (Fxp(src, like=t).status = %s)' % (got, exp, got_ctor))

# underflow variant with an array template
t2 = Fxp([-100, 0], False, 4, 0)     # underflow raised on the template
y2 = Fxp([1, 2], False, 8, 0).like(t2)
if y2.status['underflow'] or y2.status['inaccuracy']:
    bad.append('array: like() result reports %s for an exact in-range conversion' % {k: y2.status[k] for k in exp})

if bad:
    print('DEFECT (like() inherits the status flags of the template)')
    for l in bad: print('  ', l)
    sys.exit(1)
print('ok')
sys.exit(0)
