"""Commit bc4a547 (results into an out_like template are computed on raw codes with the template's fraction length):
when the out_like template has scale / bias, the raw code of the exact result is now stored as it is - the affine map of the
template is ignored - so the returned object reads s*result + b instead of result. Before the commit the value went through
the 'repr' path (n_frac=None) and was stored as the quantization of (result - b)/s.
The same holds for `out` since c4f3dc2 (the object stays scaled after a raw value is set).

C17: storing v into an object with scale s, bias b stores the C01 quantization of (v-b)/s and reads back s*code*2^-n_frac + b
C08: the result into an out / out_like target is the exact result quantized into it; 'raw' and 'repr' methods give identical results
   x = 1.5, y = 2.0 (s8/4, no scale/bias), template s16/4 with scale 2, bias 1:
   exact sum 3.5 -> (3.5 - 1)/2 = 1.25 -> code 20 -> reads 2*1.25 + 1 = 3.5
"""
import sys, warnings
import numpy as np
import fxpmath
from fxpmath import Fxp
warnings.simplefilter('ignore')
bad = []
x = Fxp(1.5, True, 8, 4); y = Fxp(2.0, True, 8, 4)

def tmpl(): return Fxp(None, True, 16, 4, scale=2, bias=1)

for name, fn, exact in (('add', fxpmath.add, 3.5), ('sub', fxpmath.sub, -0.5), ('mul', fxpmath.mul, 3.0)):
    exp_code = int((exact - 1) / 2 * 16)
    for method in ('raw', 'repr'):
        z = fn(x, y, out_like=tmpl(), method=method)
        if int(z.val) != exp_code or float(z()) != exact:
            bad.append('%s out_like method=%s: code %d value %r, expected code %d value %r' % (name, method, int(z.val), z(), exp_code, exact))
        z = fn(x, y, out=tmpl(), method=method)
        if int(z.val) != exp_code or float(z()) != exact:
            bad.append('%s out      method=%s: code %d value %r, expected code %d value %r' % (name, method, int(z.val), z(), exp_code, exact))
# operator route through the configuration
x.config.op_out_like = tmpl()
z = x + y
if float(z()) != 3.5: bad.append('x + y with config.op_out_like scaled: value %r, expected 3.5' % (z(),))
x.config.op_out_like = None
# one-variable functions
a = Fxp([1.5, 2.0], True, 8, 4)
z = fxpmath.sum(a, out_like=tmpl())
if float(z()) != 3.5: bad.append('sum out_like: value %r, expected 3.5' % (z(),))

if bad:
    print('DEFECT (scaled out_like / out target: the raw result ignores the scale and bias of the target)')
    for l in bad: print('  ', l)
    sys.exit(1)
print('ok')
sys.exit(0)
