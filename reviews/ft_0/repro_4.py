"""Commit 490b71c (Fxp source branch of _format_inupt_val) - mirror image of the defect it repaired.

A SCALAR fixed-point source of 64 or more bits whose code lies in [2**63, 2**64) is converted wrongly by the constructor, set_val,
equal-by-index and indexed assignment into a destination of fewer than 64 bits: utils.scale_raw() hands back the code as a python
integer, `val = np.array(val)` (objects.py, _format_inupt_val) turns it into a uint64 0-d array, and set_val(raw=True) re-interprets
unsigned raw codes as int64 ("a wrapped unsigned difference"): 2**64-1 becomes -1. The opposite bound is stored, with the opposite flag
(or, if -1 is representable, -1 with no flag at all). src.like(t) on a scalar object gives the right answer (the 0-d object array times 1 is
a python integer, which set_val keeps), so the conversion routes disagree; like() / equal() / resize() on an ELEMENT x[i] of a 64+ bits
array (whose value is a python integer: scale_raw -> np.asarray -> uint64) fail in the same way (like(): line touched by dd250d3).

C10: every conversion route gives one and the same result, the exact source value quantized into the destination
C02: under saturate an out-of-range input is stored as the bound on the input's own side, never the opposite one
C03: wrap stores the unique in-range integer congruent to the input modulo 2**n_word
"""
import sys, warnings
import numpy as np
from fxpmath import Fxp
warnings.simplefilter('ignore')
bad = []

def lims(s, n): return (-(1 << (n - 1)), (1 << (n - 1)) - 1) if s else (0, (1 << n) - 1)
def oracle(code, s, n, overflow):
    lo, hi = lims(s, n)
    if overflow == 'saturate': return min(max(code, lo), hi), code > hi, code < lo
    m = 1 << n; k = code % m
    if s and k >= m >> 1: k -= m
    return k, code > hi, code < lo

for (ss, sn, code) in [(False, 64, 2**64 - 1), (False, 64, 2**63), (True, 65, 2**64 - 1), (True, 70, 2**63 + 12345), (True, 128, 2**63)]:
    src = Fxp(code, ss, sn, 0, raw=True)
    assert int(src.val) == code
    for (ds, dn, ov) in [(False, 32, 'saturate'), (True, 16, 'saturate'), (True, 63, 'saturate'), (False, 63, 'saturate'), (True, 52, 'wrap'), (False, 8, 'wrap')]:
        e = oracle(code, ds, dn, ov)
        routes = {}
        routes['like()'] = src.like(Fxp(None, ds, dn, 0, overflow=ov))
        routes['Fxp(src, ...)'] = Fxp(src, ds, dn, 0, overflow=ov)
        routes['Fxp(src, like=t)'] = Fxp(src, like=Fxp(None, ds, dn, 0, overflow=ov))
        d = Fxp(None, ds, dn, 0, overflow=ov); d.reset(); d.set_val(src); routes['set_val(src)'] = d
        d = Fxp([0, 0], ds, dn, 0, overflow=ov); d.reset(); d[0] = src; e0 = d[0]; e0.status = d.status; routes['d[0] = src'] = e0
        arr = Fxp([code, 1], ss, sn, 0, raw=True)
        routes['Fxp(arr[0], ...)'] = Fxp(arr[0], ds, dn, 0, overflow=ov)
        routes['arr[0].like(t)'] = arr[0].like(Fxp(None, ds, dn, 0, overflow=ov))      # (the element holds a python integer: like() fails too)
        d = Fxp(None, ds, dn, 0, overflow=ov); d.reset(); d.equal(arr[0]); routes['d.equal(arr[0])'] = d
        for name, z in routes.items():
            got = (int(z.val), bool(z.status['overflow']), bool(z.status['underflow']))
            if got != e:
                bad.append('%s%d/0 code %d -> %s%d/0 %s by %s: (code, overflow, underflow) = %s, expected %s' % ('s' if ss else 'u', sn, code, 's' if ds else 'u', dn, ov, name, got, e))

if bad:
    print('DEFECT (scalar source code in [2**63, 2**64) is re-interpreted as a negative int64): %d discrepancies, e.g.' % len(bad))
    for l in bad[:12]: print('  ', l)
    sys.exit(1)
print('ok')
sys.exit(0)
