"""Commit bc4a547 (results into an out_like template are computed on raw codes, like results into out).

A reduction whose exact raw result is a single integer in [2**63, 2**64) (sum / prod / trace / max / min over all the elements) and whose
target (out_like, or out) has the same fraction length is stored as the OPPOSITE bound: the raw function returns
utils.scale_raw(<python int>, 0); scale_raw does np.asarray() on it (uint64) and set_val(raw=True) re-interprets unsigned raw codes as
int64, so e.g. 2**64 - 2**33 + 1 becomes -(2**33) + 1 and an unsigned target saturates at 0 with the underflow flag.
The value based method ('repr', which is what out_like used before the commit) saturates at the upper bound.

C02: under saturate an out-of-range value is stored as the bound on its own side, never the opposite one
C15: prod / sum / trace / max ... are exact (here: the exact result quantized into the imposed target, C08 wording)
C04: overflow flag iff a rounded element exceeded the maximum, underflow iff below the minimum
"""
import sys, warnings
import numpy as np
import fxpmath
from fxpmath import Fxp
warnings.simplefilter('ignore')
bad = []

def expect(label, z, code, over, under):
    got = (int(z.val), bool(z.status['overflow']), bool(z.status['underflow']))
    if got != (code, over, under):
        bad.append('%s: (code, overflow, underflow) = %s, expected %s' % (label, got, (code, over, under)))

# prod of two u32/0 values: (2**32-1)**2 = 2**64 - 2**33 + 1 > 65535 -> u16/0 saturate: 65535, overflow
x = Fxp([2**32 - 1, 2**32 - 1], False, 32, 0)
for m in ('raw', 'repr'):
    expect('prod(u32 x2, out_like=u16/0, method=%s)' % m, fxpmath.prod(x, out_like=Fxp(None, False, 16, 0), method=m), 65535, True, False)
expect('np.prod(u32 x2, out=u16/0)', np.prod(x, out=Fxp(None, False, 16, 0)), 65535, True, False)
expect('x.prod(out_like=s24/0)', x.prod(out_like=Fxp(None, True, 24, 0)), 2**23 - 1, True, False)
# wrap: (2**64 - 2**33 + 1) mod 2**16 = 1, overflow flag
expect('prod(out_like=u16/0 wrap)', fxpmath.prod(x, out_like=Fxp(None, False, 16, 0, overflow='wrap')), 1, True, False)

# sum of 4096 maximal u52/0 values: 4096*(2**52-1) = 2**64 - 4096 -> u52/0 saturate: 2**52-1, overflow
y = Fxp(np.full(4096, 2**52 - 1), False, 52, 0)
expect('sum(u52 x4096, out_like=u52/0)', fxpmath.sum(y, out_like=Fxp(None, False, 52, 0)), 2**52 - 1, True, False)
expect('y.sum(out_like=s40/0)', y.sum(out_like=Fxp(None, True, 40, 0)), 2**39 - 1, True, False)

# trace of a 2x2 u63/0 matrix: 2*(2**62+5) = 2**63 + 10 -> u16/0: 65535
t = Fxp(np.full((2, 2), 2**62 + 5).tolist(), False, 63, 0)
expect('trace(u63 2x2, out_like=u16/0)', fxpmath.trace(t, out_like=Fxp(None, False, 16, 0)), 65535, True, False)

# max of a u64/0 array: 2**64-1 -> u16/0: 65535
u = Fxp([2**64 - 1, 1], False, 64, 0)
expect('fxp_max(u64, out_like=u16/0)', fxpmath.fxp_max(u, out_like=Fxp(None, False, 16, 0)), 65535, True, False)

if bad:
    print('DEFECT (0-d raw result in [2**63, 2**64) into out_like / out: opposite bound and flag)')
    for l in bad: print('  ', l)
    sys.exit(1)
print('ok')
sys.exit(0)
