"""Commit bc4a547 (out_like results computed on raw codes) - complex operands; same root cause left behind in like() (dd250d3).

With complex operands and an out_like template that was created for real values, the raw path stores the complex codes by
set_val(raw=True), which does not update the value type of the object (vdtype stays float/int as copied from the template).
The returned object says 'fxp-s16/2-complex', holds complex codes, but get_val() / x() / astype() cast the array to float:
the imaginary parts are silently dropped (numpy ComplexWarning). Before the commit out_like went through the value based path
(Fxp(complex_values, like=out_like)), whose result reads back complex; method='repr' still does.
x.like(t) for a complex x and a real template t has the same defect (and Fxp(x, like=t), t.set_val(x), t.equal(x)).

C01: the value read back is exactly code*2^-n_frac (each component of a complex one)
C08: 'raw' and 'repr' calculation methods give identical results; C10: conversion preserves a representable value
"""
import sys, warnings
import numpy as np
import fxpmath
from fxpmath import Fxp
warnings.simplefilter('ignore')
bad = []
x = Fxp([1.5 + 2.25j, -1 - 0.5j], True, 8, 4)
y = Fxp([0.5 - 1j, 2 + 2j], True, 8, 4)
exact = {'add': [2 + 1.25j, 1 + 1.5j], 'sub': [1 + 3.25j, -3 - 2.5j]}      # all representable with 2 fraction bits
for name, fn in (('add', fxpmath.add), ('sub', fxpmath.sub)):
    for method in ('raw', 'repr'):
        z = fn(x, y, out_like=Fxp(None, True, 16, 2), method=method)
        got = np.asarray(z()).tolist()
        if [complex(g) for g in got] != exact[name]:
            bad.append('%s(x, y, out_like=s16/2, method=%s): reads %s, expected %s (codes %s, dtype %s, vdtype %s)' % (name, method, got, exact[name], z.val.tolist(), z.dtype, z.vdtype))
x.config.op_out_like = Fxp(None, True, 16, 2)
got = np.asarray((x + y)()).tolist()
if [complex(g) for g in got] != exact['add']: bad.append('x + y with config.op_out_like: reads %s, expected %s' % (got, exact['add']))
x.config.op_out_like = None

# like(): complex source, real template; 1.5+2.25j and -1-0.5j are representable in s12/2
t = Fxp(None, True, 12, 2)
z = x.like(t)
got = np.asarray(z()).tolist()
if [complex(g) for g in got] != [1.5 + 2.25j, -1 - 0.5j]:
    bad.append('x.like(s12/2): reads %s, expected [(1.5+2.25j), (-1-0.5j)] (codes %s, dtype %s, vdtype %s)' % (got, z.val.tolist(), z.dtype, z.vdtype))

if bad:
    print('DEFECT (complex codes stored by the raw path into an object whose value type stays real: imaginary part lost on reading)')
    for l in bad: print('  ', l)
    sys.exit(1)
print('ok')
sys.exit(0)
