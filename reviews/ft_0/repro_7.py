"""Commit c4f3dc2 (an object with scale/bias keeps the affine map for get_val and the limits) - minor, NumPy float32 parameter.

With a scale or bias given as np.float32 the limits are evaluated as  python_float * python_float + np.float32  which NumPy 2 (NEP 50)
computes in float32: upper / lower (and precision for a float32 scale) are rounded to 24 bits although every intermediate is an exact
double. Reading values is fine (the codes are float64 / int64 NumPy values, which promote to float64).

C17: upper, lower and precision are the unscaled ones mapped through the same affine map s*x + b (precision through s only)
   u15/18, scale 1.25, bias -20:  upper = 1.25 * 32767/2**18 - 20 = -19.84375476837158203125 (exact double)
"""
import sys, warnings
from fractions import Fraction
import numpy as np
from fxpmath import Fxp
warnings.simplefilter('ignore')
bad = []
def F(v): return Fraction(*v.as_integer_ratio()) if isinstance(v, np.floating) else Fraction(v)
for scale, bias in ((1.25, np.float32(-20.0)), (np.float32(0.625), 40.0), (1.25, -20.0)):
    x = Fxp(None, False, 15, 18, scale=scale, bias=bias)
    s, b = F(scale), F(bias)
    exp = (s * Fraction(2**15 - 1, 2**18) + b, s * 0 + b, s * Fraction(1, 2**18))
    got = (F(x.upper), F(x.lower), F(x.precision))
    if got != exp:
        bad.append('scale=%r bias=%r: upper/lower/precision = %r %r %r, expected %s %s %s' % (scale, bias, x.upper, x.lower, x.precision, float(exp[0]), float(exp[1]), float(exp[2])))
    # reading is exact (control)
    x.set_val(2**15 - 1, raw=True)
    if F(x.get_val()) != exp[0]: bad.append('scale=%r bias=%r: reads %r' % (scale, bias, x.get_val()))
if bad:
    print('DEFECT (limits of a scaled object evaluated in float32 for a np.float32 scale/bias)')
    for l in bad: print('  ', l)
    sys.exit(1)
print('ok')
sys.exit(0)
