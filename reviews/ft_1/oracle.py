"""Independent oracle (python ints / Fractions only)."""
from fractions import Fraction
import math


def rng_codes(signed, n_word):
    if signed:
        return -(1 << (n_word - 1)), (1 << (n_word - 1)) - 1
    return 0, (1 << n_word) - 1


def rnd(fr, rounding):
    fr = Fraction(fr)
    if rounding in ('trunc', 'fix'):
        return math.trunc(fr)
    if rounding == 'floor':
        return math.floor(fr)
    if rounding == 'ceil':
        return math.ceil(fr)
    if rounding == 'around':
        fl = math.floor(fr)
        d = fr - fl
        if d < Fraction(1, 2):
            return fl
        if d > Fraction(1, 2):
            return fl + 1
        return fl if fl % 2 == 0 else fl + 1
    raise ValueError(rounding)


def quant(v, signed, n_word, n_frac, rounding='trunc', overflow='saturate'):
    """returns code, ovf, unf, inexact"""
    v = Fraction(v)
    r = rnd(v * Fraction(2) ** n_frac, rounding)
    lo, hi = rng_codes(signed, n_word)
    ovf = r > hi
    unf = r < lo
    if overflow == 'saturate':
        c = min(max(r, lo), hi)
    else:
        c = r % (1 << n_word)
        if signed and c >= (1 << (n_word - 1)):
            c -= (1 << n_word)
    inexact = Fraction(c) / Fraction(2) ** n_frac != v
    return c, ovf, unf, inexact


def val_of(code, n_frac):
    return Fraction(code) / Fraction(2) ** n_frac


def codes_of(x):
    """python int codes of an Fxp object as a (nested) list / int"""
    import numpy as np
    v = x.val
    a = np.asarray(v)
    if a.ndim == 0:
        return int(a[()])
    return [int(t) for t in a.ravel().tolist()]


def check_wellformed(x):
    """C02 check; returns list of problems"""
    import numpy as np
    probs = []
    lo, hi = rng_codes(x.signed, x.n_word)
    a = np.asarray(x.val)
    if a.dtype.kind == 'c':
        flat = []
        for t in a.ravel().tolist():
            flat += [t.real, t.imag]
    else:
        flat = a.ravel().tolist()
    for t in flat:
        if isinstance(t, float) and t != int(t):
            probs.append('non-integer code %r' % t)
            continue
        t = int(t)
        if not lo <= t <= hi:
            probs.append('code %d out of [%d,%d]' % (t, lo, hi))
    if x.n_int != x.n_word - x.n_frac - (1 if x.signed else 0):
        probs.append('n_int %r' % x.n_int)
    exp = 'fxp-%s%d/%d' % ('s' if x.signed else 'u', x.n_word, x.n_frac)
    if not x.dtype.startswith(exp) or x.dtype[len(exp):] not in ('', '-complex'):
        probs.append('dtype %s vs %s' % (x.dtype, exp))
    return probs
