"""commit 94791f2 (array-valued right operand of & | ^): an element taken out of an array of 64 or more bits
combined with a NumPy integer array of masks goes through float64 (np.array(vals) of python integers that mix
values below and above 2**63) and loses the low bits / saturates."""
import sys, warnings
import numpy as np
from fxpmath import Fxp
warnings.simplefilter('ignore')

bad = 0
for signed in (False, True):
    for n_word in (64, 65, 100):
        x = Fxp([0, 5, 0], signed, n_word, 0)[1]           # element of an extended-precision array: code 5
        masks = np.array([-2, 1, 2**62 + 1], dtype=np.int64)
        for name, f in (('or', lambda a, b: a | b), ('xor', lambda a, b: a ^ b), ('and', lambda a, b: a & b)):
            z = {'or': lambda: x | masks, 'xor': lambda: x ^ masks, 'and': lambda: x & masks}[name]()
            got = [int(v) for v in np.asarray(z.val).ravel().tolist()]
            exp = []
            for m in masks.tolist():
                p = f(5 % (1 << n_word), m % (1 << n_word))          # n_word-bit patterns
                if signed and p >= 1 << (n_word - 1):
                    p -= 1 << n_word
                exp.append(p)
            if got != exp:
                bad += 1
                print('DEFECT: Fxp([0,5,0], %s, %d, 0)[1] %s np.array([-2, 1, 2**62+1]) -> codes %s, expected %s' % (signed, n_word, name, got, exp))
sys.exit(1 if bad else 0)
