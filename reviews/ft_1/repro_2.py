"""commit 2234cf3 (unsigned integer inputs / lists of python integers in [2^63, 2^64) are scaled as python integers):
the repair was restricted to `not raw`; a list (or tuple) of python integers that all lie in [2^63, 2^64) given as raw
codes (raw=True) still becomes a uint64 array, is re-interpreted as a wrapped *negative* int64 and is then saturated /
flagged on the wrong side (or, for a signed word, silently stored as a small negative code without any flag)."""
import sys, warnings
import numpy as np
from fxpmath import Fxp
warnings.simplefilter('ignore')

bad = 0
def check(label, x, exp_codes, exp_ovf, exp_unf):
    global bad
    got = [int(v) for v in np.asarray(x.val).ravel().tolist()]
    flags = (bool(x.status['overflow']), bool(x.status['underflow']))
    if got != exp_codes or flags != (exp_ovf, exp_unf):
        bad += 1
        print('DEFECT: %s -> codes %s (overflow, underflow)=%s ; expected %s %s' % (label, got, flags, exp_codes, (exp_ovf, exp_unf)))

# unsigned 40 bits, saturate: raw code 2**63 is far above the maximum 2**40-1 -> max, overflow
check("Fxp([2**63], False, 40, 0, raw=True)", Fxp([2**63], False, 40, 0, raw=True), [2**40 - 1], True, False)
# signed 40 bits, saturate: raw code 2**64-1 is far above the maximum 2**39-1 -> max, overflow (observed: -1, no flag at all)
check("Fxp([2**64-1], True, 40, 0, raw=True)", Fxp([2**64 - 1], True, 40, 0, raw=True), [2**39 - 1], True, False)
check("Fxp((2**63, 2**63+1), True, 16, 3, raw=True)", Fxp((2**63, 2**63 + 1), True, 16, 3, raw=True), [2**15 - 1, 2**15 - 1], True, False)
# set_val route
y = Fxp(None, False, 32, 12); y.reset(); y.set_val([2**63], raw=True)
check("Fxp(None, False, 32, 12).set_val([2**63], raw=True)", y, [2**32 - 1], True, False)
# same list with one short element goes through the python-integer path and is right (consistency reference)
check("Fxp([2**63, 1], False, 40, 0, raw=True)", Fxp([2**63, 1], False, 40, 0, raw=True), [2**40 - 1, 1], True, False)
# the scalar is right as well
check("Fxp(2**63, False, 40, 0, raw=True)", Fxp(2**63, False, 40, 0, raw=True), [2**40 - 1], True, False)
sys.exit(1 if bad else 0)
