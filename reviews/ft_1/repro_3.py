"""commit 6d22759 (a list of python integers that mixes values beyond 64 bits with shorter ones is kept as integers):
the repair only recognises lists whose elements are all *python* ints (`all(isinstance(v, int) ...)`). A list that
holds one NumPy integer next to the python integer beyond 63 bits still goes through float64 and the python integer
loses its low bits silently (no inaccuracy flag)."""
import sys, warnings
import numpy as np
from fxpmath import Fxp
warnings.simplefilter('ignore')

bad = 0
big = 2**63 + 1
for label, make in [
        ("Fxp([np.int64(-1), 2**63+1], True, 70, 0)", lambda: Fxp([np.int64(-1), big], True, 70, 0)),
        ("Fxp([np.int64(-1), 2**63+1], True, 70, 0, raw=True)", lambda: Fxp([np.int64(-1), big], True, 70, 0, raw=True)),
        ("Fxp([np.uint64(2**63+1), -1], True, 70, 0)", lambda: Fxp([np.uint64(big), -1], True, 70, 0)),
        ("Fxp((np.int8(-1), 2**63+1), True, 128, 0)", lambda: Fxp((np.int8(-1), big), True, 128, 0)),
        ]:
    x = make()
    got = sorted(int(v) for v in np.asarray(x.val).ravel().tolist())
    exp = sorted([-1, big])
    if got != exp:
        bad += 1
        print('DEFECT: %s -> codes %s, expected %s (status %s)' % (label, got, exp, x.status))
# reference: the same list of python integers only is exact
ref = Fxp([-1, big], True, 70, 0)
assert [int(v) for v in ref.val.tolist()] == [-1, big]
sys.exit(1 if bad else 0)
