"""commit aa5c19e (size inference works on python integers / doubles so narrow NumPy integer inputs are sized without
wrap-around): the conversion to python integers is only applied to arrays of integer dtype (kind 'iu'). An object array
(or 0-d object array) that holds narrow NumPy integer scalars is still scaled in the element's own type:
np.int8(100) * (1 << 4) wraps around in int8, the word is sized from the wrapped value and the value then overflows."""
import sys, warnings
import numpy as np
from fxpmath import Fxp
warnings.simplefilter('ignore')

def obj(*a):
    o = np.empty(len(a), dtype=object); o[:] = list(a); return o

bad = 0
cases = [
    ("Fxp(objarr[np.int8(100), np.int8(-3)], n_frac=4)", lambda: Fxp(obj(np.int8(100), np.int8(-3)), n_frac=4), (True, 12, 4), [1600, -48]),
    ("Fxp(objarr[np.uint8(200), np.uint8(3)], False, n_frac=4)", lambda: Fxp(obj(np.uint8(200), np.uint8(3)), False, n_frac=4), (False, 12, 4), [3200, 48]),
    ("Fxp(objarr[np.int16(1000), np.int16(-3)], n_frac=8)", lambda: Fxp(obj(np.int16(1000), np.int16(-3)), n_frac=8), (True, 19, 8), [256000, -768]),
    ("Fxp(np.array(np.int8(100), dtype=object), n_frac=4)", lambda: Fxp(np.array(np.int8(100), dtype=object), n_frac=4), (True, 12, 4), [1600]),
]
for label, make, fmt, codes in cases:
    x = make()
    got = [int(v) for v in np.asarray(x.val).ravel().tolist()]
    flags = {k: v for k, v in x.status.items() if v and k != 'extended_prec'}
    if (x.signed, x.n_word, x.n_frac) != fmt or got != codes or flags:
        bad += 1
        print('DEFECT: %s -> %s codes %s flags %s ; expected fxp-%s%d/%d codes %s, no flag' % (label, x.dtype, got, flags, 's' if fmt[0] else 'u', fmt[1], fmt[2], codes))
# reference: the same scalars in a list, or in an int8 array, are sized correctly
assert Fxp([np.int8(100), np.int8(-3)], n_frac=4).dtype == 'fxp-s12/4'
assert Fxp(np.array([100, -3], dtype=np.int8), n_frac=4).dtype == 'fxp-s12/4'
sys.exit(1 if bad else 0)
