"""commit ac78805 (the scale/bias conversion of narrow or unsigned NumPy inputs is calculated with 64 bits integers /
doubles): the widening is only applied to arrays of dtype kind 'iu' / 'f' / 'c'. An object array that holds narrow
NumPy integer scalars still subtracts the bias in the element's own type: np.int8(-100) - 100 wraps around to 56,
np.uint8(5) - 10 wraps around to 251."""
import sys, warnings
from fractions import Fraction
import numpy as np
from fxpmath import Fxp
warnings.simplefilter('ignore')

def obj(*a):
    o = np.empty(len(a), dtype=object); o[:] = list(a); return o

bad = 0
def check(label, x, vals, bias, scale, n_frac):
    global bad
    exp = [int((Fraction(v) - bias) / scale * 2**n_frac) for v in vals]       # exact here: no rounding needed
    got = [int(v) for v in np.asarray(x.val).ravel().tolist()]
    rb = [float(v) for v in np.asarray(x.get_val()).ravel().tolist()]
    if got != exp or rb != [float(v) for v in vals]:
        bad += 1
        print('DEFECT: %s -> codes %s read back %s ; expected codes %s read back %s' % (label, got, rb, exp, [float(v) for v in vals]))

check("Fxp(objarr[np.int8(-100), np.int8(5)], True, 16, 2, bias=100)", Fxp(obj(np.int8(-100), np.int8(5)), True, 16, 2, bias=100), [-100, 5], 100, 1, 2)
check("Fxp(objarr[np.uint8(5), np.uint8(7)], True, 16, 2, bias=10)", Fxp(obj(np.uint8(5), np.uint8(7)), True, 16, 2, bias=10), [5, 7], 10, 1, 2)
check("Fxp(objarr[np.uint8(5), np.uint8(7)], True, 16, 2, scale=2, bias=10)", Fxp(obj(np.uint8(5), np.uint8(7)), True, 16, 2, scale=2, bias=10), [5, 7], 10, 2, 2)
y = Fxp([0, 0], True, 16, 2, bias=100); y[:] = obj(np.int8(-100), np.int8(5))
check("y = Fxp([0,0], True, 16, 2, bias=100); y[:] = objarr[np.int8(-100), np.int8(5)]", y, [-100, 5], 100, 1, 2)
# reference: the int8 array and the list of the same scalars are right
check("int8 array (reference)", Fxp(np.array([-100, 5], dtype=np.int8), True, 16, 2, bias=100), [-100, 5], 100, 1, 2)
check("list of int8 scalars (reference)", Fxp([np.int8(-100), np.int8(5)], True, 16, 2, bias=100), [-100, 5], 100, 1, 2)
sys.exit(1 if bad else 0)
