"""commit ea6bbbb (NumPy functions that return truth values return them as they are instead of failing to wrap them in
a fixed-point object): only np.ndarray / np.generic results of dtype bool are passed through. NumPy functions whose
truth value is a *python* bool (np.array_equal, np.array_equiv, np.allclose) still go to __array_wrap__, which tries
Fxp(True) and raises the very OverflowError the commit removed for the comparison operators."""
import sys, warnings
import numpy as np
from fxpmath import Fxp
warnings.simplefilter('ignore')

x = Fxp([1.5, -2.25, 3.0], True, 12, 4)
y = Fxp([1.5, -2.25, 3.0], True, 16, 8)
z = Fxp([1.5, -2.25, 3.25], True, 16, 8)
bad = 0
for name, f, exp in [('np.array_equal(x, y)', lambda: np.array_equal(x, y), True), ('np.array_equal(x, z)', lambda: np.array_equal(x, z), False),
                     ('np.array_equiv(x, y)', lambda: np.array_equiv(x, y), True), ('np.allclose(x, y)', lambda: np.allclose(x, y), True),
                     ('np.allclose(x, z)', lambda: np.allclose(x, z), False)]:
    try:
        r = f()
        if isinstance(r, Fxp) or bool(r) != exp:
            bad += 1; print('DEFECT: %s -> %r, expected %r' % (name, r, exp))
    except Exception as e:
        bad += 1; print('DEFECT: %s raises %s: %s (expected %r)' % (name, type(e).__name__, e, exp))
sys.exit(1 if bad else 0)
