"""Bitwise operator between an element taken out of an array of 64+ bits and a NumPy array of integer masks loses the low bits.

Commit: ec26ad2 (NumPy bitwise functions / NumPy integer masks act on the word) - helper utils.array_support_binary.
Property C13 (n_word in {64, 65, 100, 128}, integer bit masks on either side, operators and the np.bitwise_* functions).
"""
import sys
import numpy as np
from fxpmath import Fxp

failures = []

def tc(p, signed, n_word):
    p %= (1 << n_word)
    if signed and p >= (1 << (n_word - 1)):
        p -= (1 << n_word)
    return p

def check(label, z, expected):
    got = [int(c) for c in np.asarray(z.val, dtype=object).flatten()]
    if got != expected:
        failures.append('%s: got %s expected %s' % (label, got, expected))

for signed, n_word, n_frac, codes in ((False, 64, 0, [0, 1]), (True, 64, 41, [0, -1]), (False, 100, 65, [7, 1]), (True, 128, 0, [0, 5]), (False, 65, 0, [0, 3])):
    x = Fxp(codes, signed, n_word, n_frac, raw=True)
    e = x[1]                      # element: its value is a python integer
    c = codes[1]
    masks = [2**63 + 1, 2, 2**64 - 2]
    m = np.array(masks, dtype=np.uint64)
    pat = c % (1 << n_word)
    for name, op, pyop in (('and', lambda a, b: a & b, lambda a, b: a & b), ('or', lambda a, b: a | b, lambda a, b: a | b), ('xor', lambda a, b: a ^ b, lambda a, b: a ^ b)):
        exp = [tc(pyop(pat, k), signed, n_word) for k in masks]
        check('x[1] %s uint64 masks, fmt=(%s,%d,%d)' % (name, signed, n_word, n_frac), op(e, m), exp)
        check('uint64 masks %s x[1], fmt=(%s,%d,%d)' % (name, signed, n_word, n_frac), op(m, e), exp)
        npf = {'and': np.bitwise_and, 'or': np.bitwise_or, 'xor': np.bitwise_xor}[name]
        check('np.bitwise_%s(x[1], masks), fmt=(%s,%d,%d)' % (name, signed, n_word, n_frac), npf(e, m), exp)
        check('np.bitwise_%s(masks, x[1]), fmt=(%s,%d,%d)' % (name, signed, n_word, n_frac), npf(m, e), exp)
    # int64 masks with negative entries (two's complement patterns above 2**63 mixed with small ones)
    masks2 = [-2**63 + 1, 2]
    m2 = np.array(masks2, dtype=np.int64)
    exp = [tc(pat | (k % (1 << n_word)), signed, n_word) for k in masks2]
    check('x[1] | int64 masks, fmt=(%s,%d,%d)' % (signed, n_word, n_frac), e | m2, exp)

if failures:
    print('DEFECT PRESENT (%d discrepancies)' % len(failures))
    for f in failures[:12]:
        print('  ' + f)
    sys.exit(1)
print('ok')
sys.exit(0)
