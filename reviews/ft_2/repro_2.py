"""clip with a fixed-point bound gives a wrong value on the value based ('repr') route (op_method='repr', or a scaled operand).

Commit: 915f225 (clip accepts fixed-point bounds). The raw kernel converts the bound (bound.get_val()), the repr route hands the Fxp bound to
np.clip(x.get_val(), a_min=..., a_max=...), which dispatches back to fxpmath's clip with a plain ndarray as operand: that operand is re-sized to
the smallest format holding its values, and the bound is truncated into it.
Property C15 (clip, exact result, both call routes); C08 (raw and repr methods agree).
"""
import sys
import numpy as np
from fractions import Fraction
from fxpmath import Fxp

failures = []

def run(label, x, lo, hi, expected):
    try:
        z = x.clip(lo, hi)
        got = [Fraction(float(v)) for v in np.asarray(z.get_val()).flatten()]
    except Exception as e:
        failures.append('%s: %s %s' % (label, type(e).__name__, e)); return
    if got != expected:
        failures.append('%s: got %s expected %s (dtype %s, status %s)' % (label, [float(g) for g in got], [float(g) for g in expected], z.dtype, z.status))

vals = [63.0, 0.0, 45.0]                      # codes 126, 0, 90 in u7/1
hi = Fxp(53.5, False, 19, 1)                  # exactly representable in u7/1 (code 107)
exp = [Fraction(min(v, 53.5)) for v in vals]  # [53.5, 0, 45]
run("raw   x.clip(None, Fxp(53.5))", Fxp(vals, False, 7, 1), None, hi, exp)
run("repr  x.clip(None, Fxp(53.5))", Fxp(vals, False, 7, 1, op_method='repr'), None, hi, exp)
lo = Fxp(10.5, True, 16, 4)
exp2 = [Fraction(min(max(v, 10.5), 53.5)) for v in vals]
run("repr  x.clip(Fxp(10.5), Fxp(53.5))", Fxp(vals, False, 7, 1, op_method='repr'), lo, hi, exp2)
# the np function with method='repr'
try:
    z = np.clip(Fxp(vals, False, 7, 1), None, hi, method='repr')
    got = [Fraction(float(v)) for v in np.asarray(z.get_val()).flatten()]
    if got != exp:
        failures.append("np.clip(x, None, Fxp(53.5), method='repr'): got %s expected %s" % ([float(g) for g in got], [float(g) for g in exp]))
except Exception as e:
    failures.append("np.clip(..., method='repr'): %s %s" % (type(e).__name__, e))

# a scaled operand always takes the value based route, whatever the method
xs = Fxp([8.0, 1.0], True, 8, 2, scale=2, bias=1)
run("scaled x.clip(None, 4.5) (plain bound, reference)", xs, None, 4.5, [Fraction(4.5), Fraction(1)])
run("scaled x.clip(None, Fxp(4.5))", xs, None, Fxp(4.5), [Fraction(4.5), Fraction(1)])

if failures:
    print('DEFECT PRESENT')
    for f in failures:
        print('  ' + f)
    sys.exit(1)
print('ok')
sys.exit(0)
