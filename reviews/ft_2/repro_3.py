"""A complex value written by index into an object holding real values loses its imaginary part silently.

x = Fxp([1, 2], True, 8, 2); x[0] = 1+2j  ->  reads (1+0j), no flag raised, while dtype / vdtype say the object is complex (codes stay int64).
Commits: 9f4481d (dtype suffix is rendered from the settled value type: it now says '-complex' for a buffer that cannot hold an imaginary part),
         b0d16c7 (complex branch of set_val: `self.val[index] = new_val` casts the complex codes into the real buffer, ComplexWarning only).
Properties: C01 (each component of a complex value is quantized and read back exactly, also by indexed assignment), C04 (inaccuracy flag iff the stored
element differs from its input), C02 (metadata consistent).
"""
import sys, warnings
import numpy as np
from fxpmath import Fxp
warnings.simplefilter('ignore')

failures = []
def check(label, x, idx, expected):
    got = complex(np.asarray(x.get_val(), dtype=complex)[idx]) if idx is not None else complex(x.get_val())
    if got != expected and not x.status['inaccuracy']:
        failures.append('%s: read back %r, expected %r (1+2j is representable: codes 4+8j), inaccuracy flag %s, dtype %s, codes %r'
                        % (label, got, expected, x.status['inaccuracy'], x.dtype, x.val))

def attempt(label, make, write, idx):
    x = make()
    try:
        write(x)
    except Exception:
        return      # an error instead of a silent loss is acceptable
    check(label, x, idx, 1 + 2j)

attempt('x[0] = 1+2j', lambda: Fxp([1, 2], True, 8, 2), lambda x: x.__setitem__(0, 1 + 2j), 0)
attempt('x[:] = [1+2j, 3]', lambda: Fxp([1, 2], True, 8, 2), lambda x: x.__setitem__(slice(None), [1 + 2j, 3]), 0)
attempt('x.set_val(np.complex64(1+2j), index=0)', lambda: Fxp([1, 2], True, 8, 2), lambda x: x.set_val(np.complex64(1 + 2j), index=0), 0)
attempt('scalar x[()] = 1+2j', lambda: Fxp(1.0, True, 8, 2), lambda x: x.__setitem__((), 1 + 2j), None)
# reference: the same write without an index keeps both components
x = Fxp([1, 2], True, 8, 2); x([1 + 2j, 3])
check('x([1+2j, 3]) (whole write, reference)', x, 0, 1 + 2j)

if failures:
    print('DEFECT PRESENT')
    for f in failures:
        print('  ' + f)
    sys.exit(1)
print('ok')
sys.exit(0)
