"""One complex write whose real and imaginary parts both overflow invokes the overflow callback twice.

Commit: b0d16c7 (complex branch of set_val: _overflow_action - which fires the callbacks - is called once per component).
Property C04: registered callbacks are invoked once per write for exactly the conditions that occurred, plus one value-change notification.
"""
import sys
import numpy as np
from fxpmath import Fxp

class CB:
    def __init__(self): self.log = []
    def on_value_change(self, x): self.log.append('change')
    def on_status_overflow(self, x): self.log.append('overflow')
    def on_status_underflow(self, x): self.log.append('underflow')
    def on_status_inaccuracy(self, x): self.log.append('inaccuracy')

failures = []
def run(label, value, expected):
    x = Fxp(0j, True, 8, 2)
    cb = CB(); x.callbacks.append(cb)
    x(value)
    if sorted(cb.log) != sorted(expected):
        failures.append('%s: callbacks %s, expected (in any order) %s' % (label, cb.log, expected))

run('x(1000.25+1000.25j)', 1000.25 + 1000.25j, ['overflow', 'inaccuracy', 'change'])
run('x(np.complex64(1000.5+1000.5j))', np.complex64(1000.5 + 1000.5j), ['overflow', 'inaccuracy', 'change'])
run('x(-1000.25-1000.25j)', -1000.25 - 1000.25j, ['underflow', 'inaccuracy', 'change'])
run('x([1000.25+1j, 2+1000.25j])', [1000.25 + 1j, 2 + 1000.25j], ['overflow', 'inaccuracy', 'change'])
run('x(1000.25-1000.25j) (reference: one of each)', 1000.25 - 1000.25j, ['overflow', 'underflow', 'inaccuracy', 'change'])

if failures:
    print('DEFECT PRESENT')
    for f in failures:
        print('  ' + f)
    sys.exit(1)
print('ok')
sys.exit(0)
