"""A NumPy scalar (or 0-d array) constant on the LEFT of +, -, * ignores the constant-operand policy of the fixed-point operand.

3 - x, x - 3 and x - np.int64(3) give the imposed format (const_op_sizing='same' by default: x's format, overflow handled by x's configuration);
np.int64(3) - x goes through x.__array_ufunc__ -> functions.sub(np.int64(3), x) with sizing='optimal' and a best-sized constant: another format, no saturation.
Commit: ec26ad2 repaired exactly this for the bitwise operators (np.int64(m) | x) in __array_ufunc__ and left the arithmetic ones behind.
Property C08: with a constant operand the result is the exact result quantized into the imposed format (here: the format of x) with the flags set accordingly.
"""
import sys
import numpy as np
from fractions import Fraction
from fxpmath import Fxp

failures = []
x = Fxp([1.5, -2.25], True, 8, 4)          # range [-8, 7.9375]
for c in (np.int64(3), np.float64(3.0), np.int8(3), np.array(3)):
    for name, f_np, f_py in (('-', lambda: c - x, lambda: 3 - x), ('+', lambda: c + x, lambda: 3 + x), ('*', lambda: c * x, lambda: 3 * x)):
        a, b = f_np(), f_py()
        if a.dtype != b.dtype:
            failures.append('%r %s x -> %s, but 3 %s x -> %s' % (c, name, a.dtype, name, b.dtype))
# value level: the constant is converted according to op_input_size ('same': it saturates to 7.9375 with the overflow flag) and the sum is stored in x's format
a = np.int64(100) + x
b = 100 + x
if [float(v) for v in a.get_val()] != [float(v) for v in b.get_val()] or a.status['overflow'] != b.status['overflow']:
    failures.append('np.int64(100) + x -> %s %s overflow=%s, but 100 + x -> %s %s overflow=%s (expected like 100 + x: the constant is first converted with the input-size policy same -> 7.9375, then 7.9375 + x quantized into s8/4)'
                    % (a.dtype, a.get_val(), a.status['overflow'], b.dtype, b.get_val(), b.status['overflow']))

if failures:
    print('DEFECT PRESENT')
    for f in failures:
        print('  ' + f)
    sys.exit(1)
print('ok')
sys.exit(0)
