from fractions import Fraction as F
import math
ROUNDS = ['trunc', 'fix', 'floor', 'ceil', 'around']
OVFS = ['saturate', 'wrap']
def rnd(x, mode):
    x = F(x)
    if mode in ('trunc', 'fix'):
        return math.trunc(x)
    if mode == 'floor':
        return math.floor(x)
    if mode == 'ceil':
        return math.ceil(x)
    if mode == 'around':
        return round(x)   # ties to even
    raise ValueError(mode)
def bounds(signed, n_word):
    if signed:
        return -(1 << (n_word-1)), (1 << (n_word-1)) - 1
    return 0, (1 << n_word) - 1
def quant(v, signed, n_word, n_frac, rounding='trunc', overflow='saturate'):
    """returns code, over, under, inexact"""
    v = F(v)
    r = rnd(v * F(2)**n_frac, rounding)
    lo, hi = bounds(signed, n_word)
    over = r > hi; under = r < lo
    if overflow == 'saturate':
        c = min(max(r, lo), hi)
    else:
        c = r % (1 << n_word)
        if signed and c >= (1 << (n_word-1)):
            c -= (1 << n_word)
    inexact = F(c) / F(2)**n_frac != v
    return c, over, under, inexact
def val_of(code, n_frac):
    return F(code) / F(2)**n_frac
def codes(x):
    import numpy as np
    v = x.val
    if isinstance(v, np.ndarray):
        return [int(c) for c in v.flatten()] if v.dtype.kind != 'c' else [complex(c) for c in v.flatten()]
    return [int(v)]
