"""
Commit e2408f5 ("a complex format asked by the dtype string at construction gives a complex object also when the value stored is real").

The constructor only relabels the object (vdtype = complex, '-complex' suffix) and leaves the real int64 buffer in place, so the object that
says it is complex cannot hold a complex element: an indexed store of a complex value silently drops the imaginary component
(C01: each component of a complex value is quantized and stored, also by indexed assignment; C10 for a fixed-point element).
"""
import sys, warnings
import numpy as np
from fxpmath import Fxp

warnings.simplefilter('ignore')
bad = []

def expect(label, got, want):
    if got != want:
        bad.append(label)
        print('DISCREPANCY %s: observed %r, expected %r' % (label, got, want))

def comp(x):
    return [(int(c.real), int(c.imag)) for c in np.asarray(x.val).flatten()]

# format s16/8: code = trunc(v * 2**8) per component
# 1 + 2j  ->  (256, 512) ; 0.5 - 0.25j -> (128, -64)
x = Fxp([1, 2, 3], dtype='fxp-s16/8-complex')
expect('dtype after construction', x.dtype, 'fxp-s16/8-complex')
x[0] = 1 + 2j
expect('array: x[0] = 1+2j', comp(x), [(256, 512), (512, 0), (768, 0)])

x = Fxp([1.5, 2.5, 3.0], dtype='fxp-s16/8-complex')
x[1] = np.complex64(0.5 - 0.25j)
expect('array: x[1] = complex64(0.5-0.25j)', comp(x), [(384, 0), (128, -64), (768, 0)])

x = Fxp(1.5, dtype='fxp-s16/8-complex')
x[()] = 1 + 2j
expect('scalar: x[()] = 1+2j', comp(x), [(256, 512)])

x = Fxp([1, 2, 3], dtype='fxp-s16/8-complex')
x[2] = Fxp(0.5 - 0.25j, True, 24, 10)          # fixed-point element (C10): (0.5, -0.25) -> (128, -64)
expect('array: x[2] = Fxp(0.5-0.25j)', comp(x), [(256, 0), (512, 0), (128, -64)])

# reference: an object that became complex through its value behaves correctly
y = Fxp([1 + 0j, 2, 3], dtype='fxp-s16/8-complex')
y[0] = 1 + 2j
expect('reference (complex value at construction)', comp(y), [(256, 512), (512, 0), (768, 0)])

sys.exit(1 if bad else 0)
