"""
Commit e2408f5 (complex format asked by the dtype string, real value stored) - second symptom of the same root cause.

The object is only labelled complex (its buffer stays a real integer array), so the next indexed store of a REAL value takes the real branch
of set_val, sets vdtype back to float and the '-complex' suffix silently disappears again from dtype: the format asked for at construction
is lost by a write that does not change any size (C12: dtype string and (signed, n_word, n_frac, complex) determine each other;
C02: dtype spells exactly the object's format; a true complex object keeps the suffix under the same write).
"""
import sys, warnings
import numpy as np
from fxpmath import Fxp

warnings.simplefilter('ignore')
bad = []

def expect(label, got, want):
    if got != want:
        bad.append(label)
        print('DISCREPANCY %s: observed %r, expected %r' % (label, got, want))

x = Fxp([1, 2, 3], dtype='fxp-s16/8-complex')
expect('dtype after construction', x.dtype, 'fxp-s16/8-complex')
x[0] = 2.5
expect('dtype after x[0] = 2.5 (array)', x.dtype, 'fxp-s16/8-complex')
expect('value type after x[0] = 2.5', np.asarray(x.get_val()).dtype.kind, 'c')
expect('Fxp(None, dtype=x.dtype) reproduces the complex format', Fxp(None, dtype=x.dtype).vdtype == complex, True)

x = Fxp(1.5, dtype='fxp-s16/8-complex')
x[()] = 2.5
expect('dtype after x[()] = 2.5 (scalar)', x.dtype, 'fxp-s16/8-complex')

# reference: the same write into an object that is complex through its value keeps the suffix
y = Fxp([1 + 0j, 2, 3], dtype='fxp-s16/8-complex')
y[0] = 2.5
expect('reference (complex value at construction)', y.dtype, 'fxp-s16/8-complex')

sys.exit(1 if bad else 0)
