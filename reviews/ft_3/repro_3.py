"""
Commit 8d34873 ("size inference counts the integer bits of the value, not of the scaled value, against the maximum word").

When only n_frac is given and the value needs more than 64 bits with it, set_best_sizes now shortens n_frac so that the integer part fits
in the 64 bits word (correct for a value: Fxp(-951822676709, n_frac=24) -> fxp-s64/23, exact).  For a RAW input the code that was supplied
is expressed with the n_frac that was asked for, but after the format has been changed it is stored unscaled in the new, coarser format:
the value saturates although the format that was just chosen holds it exactly, and every other element is read back 2**k times too large.
Before the commit n_frac was never changed for a raw input (the code simply saturated in the format asked for).

C06: with the word left unspecified the inferred format represents the supplied dyadic value exactly with no flag (|k| < 2**40, f <= 20 here);
the word never exceeds 64 bits, "beyond which the value is quantized with error below one LSB and flagged inexact" - here the error is
1.5e11 and underflow/overflow are raised.  The 'fit' sizing of the arithmetic operators builds its result exactly this way.
"""
import sys, warnings
from fractions import Fraction as F
import numpy as np
from fxpmath import Fxp

warnings.simplefilter('ignore')
bad = []

def check(label, x, values):
    # the value of every element must be within one LSB of the exact one, and exact (no flag) when the format can hold it
    lsb = F(1, 2**x.n_frac)
    lo = -(1 << (x.n_word - 1)) if x.signed else 0
    hi = (1 << (x.n_word - 1)) - 1 if x.signed else (1 << x.n_word) - 1
    codes = [int(c) for c in np.asarray(x.val, dtype=object).flatten()]
    for c, v in zip(codes, values):
        got = F(c) / 2**x.n_frac
        fits = (v * 2**x.n_frac).denominator == 1 and lo <= v * 2**x.n_frac <= hi
        if abs(got - v) >= lsb or (fits and got != v):
            bad.append(label)
            print('DISCREPANCY %s: format %s, stored code %d = value %s, exact value %s (%s in this format)' % (
                label, x.dtype, c, float(got), float(v), 'representable exactly, code %d' % (v * 2**x.n_frac) if fits else 'not representable'))
    if x.n_word > 64:
        bad.append(label); print('DISCREPANCY %s: inferred word of %d bits' % (label, x.n_word))
    if any(x.status[k] for k in ('overflow', 'underflow')) and all(lo <= v * 2**x.n_frac <= hi for v in values):
        bad.append(label); print('DISCREPANCY %s: flags %s although no element is out of the range of %s' % (label, {k: v for k, v in x.status.items() if v}, x.dtype))

# value -951822676709 (k < 2**40, f = 0) given as a code with 24 fraction bits: 41 integer bits + 24 + sign = 65 bits > 64
v = F(-951822676709)
check('reference: the same value, not raw', Fxp(int(v), n_frac=24), [v])
check('scalar raw code, n_frac=24', Fxp(int(v * 2**24), n_frac=24, raw=True), [v])

vals = [F(-951822676709), F(407366093590), F(3, 8)]
a = np.empty(3, dtype=object); a[:] = [int(q * 2**27) for q in vals]
check('array of raw codes, n_frac=27', Fxp(a, n_frac=27, raw=True), vals)

vals = [F(58674677967, 16384), F(331508221311, 128)]
check('unsigned raw codes, n_frac=42', Fxp([int(q * 2**42) for q in vals], signed=False, n_frac=42, raw=True), vals)

# the same path through the operators: sizing 'fit' computes the raw result with the finer n_frac and lets the constructor find the word
x = Fxp([1.0, 3e9], True, 40, 4, op_sizing='fit')
y = Fxp([0.5, 0.5], True, 40, 36)
check("x + y with op_sizing='fit'", x + y, [F(3, 2), F(3000000000) + F(1, 2)])

sys.exit(1 if bad else 0)
