"""
Commit ca591d3 ("values given as a list of narrow NumPy scalars (int8..int32, float16/32) are scaled in 64 bits like arrays are") - left behind.

The commit normalises the value type (vdtype) of a LIST of narrow NumPy scalars to float64 / int64.  The same scalars held in an object array
(what np.array(list_of_scalars, dtype=object) or a column taken out of a record gives) take the other branch of _format_inupt_val:
vdtype = type(val.item(0)) = numpy.float16 / numpy.float32.  The codes are right, but every later read of the object - get_val(), x(), str,
comparisons, arithmetic with the 'repr' method - casts code * 2**-n_frac to that narrow type: the value read back is not the stored one,
and it is +inf as soon as the stored value exceeds 65504 (float16).

C01: the value read back is exactly code * 2**-n_frac, whatever the carrier (borderline: an object array is not a "numeric dtype" array;
the elements are NumPy scalars).  C16: get_val / comparisons agree with the exact stored value.
"""
import sys, warnings
from fractions import Fraction as F
import numpy as np
from fxpmath import Fxp

warnings.simplefilter('ignore')
bad = []

def check(label, x, codes):
    got_codes = [int(c) for c in np.asarray(x.val).flatten()]
    if got_codes != codes:
        bad.append(label); print('DISCREPANCY %s: codes %r, expected %r' % (label, got_codes, codes))
    exact = [F(c, 2**x.n_frac) for c in codes]
    read = np.asarray(x.get_val()).flatten().tolist()
    ok = all(np.isfinite(r) and F(float(r)) == e for r, e in zip(read, exact))
    if not ok:
        bad.append(label)
        print('DISCREPANCY %s: get_val() = %r (vdtype %s), expected exactly %r' % (label, x.get_val(), x.vdtype, [float(e) for e in exact]))

def objarr(vals):
    a = np.empty(len(vals), dtype=object); a[:] = vals; return a

# s32/22, saturate: 512 is above the upper limit (2**31 - 1) / 2**22 = 511.99999976..., -0.5 -> -2**21
vals = [np.float16(512.0), np.float16(-0.5)]
check('reference: list of float16', Fxp(list(vals), True, 32, 22), [2**31 - 1, -2**21])
check('reference: float16 array', Fxp(np.array([512.0, -0.5], dtype=np.float16), True, 32, 22), [2**31 - 1, -2**21])
check('object array of float16', Fxp(objarr(vals), True, 32, 22), [2**31 - 1, -2**21])

# u29/12, wrap: -0.5 -> (-2048) mod 2**29 = 536868864 = 131071.5
check('object array of float16, wrap', Fxp(objarr([np.float16(512.0), np.float16(-0.5)]), False, 29, 12, overflow='wrap'), [2097152, 536868864])

# float32 elements: s40/30, then the code is moved by one LSB with a raw write (the value type is kept by a raw write)
x = Fxp(objarr([np.float32(3.0), np.float32(0.5)]), True, 40, 30)
x.set_val(x.val + 1, raw=True)
check('object array of float32, after a raw write', x, [3 * 2**30 + 1, 2**29 + 1])
if not (x > 3.0).all():
    bad.append('cmp'); print('DISCREPANCY comparison: x > 3.0 gives %r for the codes %r (both values are above 3.0 / 0.5: expected [True, False])' % (x > 3.0, x.val))

sys.exit(1 if bad else 0)
