"""
OBSERVATION (outside the stated domains of C14 / C16: words of 64 bits and more) - commit 7c7a636 ("shift operators accept a NumPy integer count").

a) trunc / keep mode, scalar of 64+ bits: y = x >> n leaves y.val a bare Python int (a 0-d object array >> 0-d object array gives a Python
   scalar), so y.shape / y.ndim / y.size, int(y), float(y), bool(y), np.sum(y) ... raise AttributeError.  With a Python count this is old;
   the commit now converts a NumPy count to a Python int first, so x >> np.int64(1), which used to return a usable object, fails the same way.
b) expand mode, ARRAY of 64+ bits: x << n still raises TypeError (np.log2 of an object array) on the very line the commit repaired for counts.
Such operands are what the product of two ordinary 35..40 bits objects is (optimal sizing), e.g. (a * b) >> 1.
"""
import sys, warnings
import numpy as np
from fxpmath import Fxp

warnings.simplefilter('ignore')
bad = []
a = Fxp(3.5, True, 40, 20, shifting='trunc')
b = Fxp(1.25, True, 40, 20)
p = a * b                                  # fxp-s80/40, value 4.375, inherits shifting='trunc'
for n in (1, np.int64(1)):
    y = p >> n
    try:
        r = (y.shape, y.ndim, float(y), int(y), bool(y))
        if r != ((), 0, 2.1875, 2, True):
            bad.append(1); print('DISCREPANCY (p >> %r): %r' % (n, r))
    except Exception as e:
        bad.append(1); print('DISCREPANCY (p >> %r) in trunc mode: type(y.val) = %s, %s: %s' % (n, type(y.val).__name__, type(e).__name__, e))
x = Fxp([5, -3], True, 64, 0)              # expand mode (default)
try:
    y = x << np.int64(2)
    if [int(c) for c in y.val] != [20, -12]:
        bad.append(1); print('DISCREPANCY x << 2:', y.val)
except Exception as e:
    bad.append(1); print('DISCREPANCY Fxp([5, -3], True, 64, 0) << np.int64(2) in expand mode: %s: %s' % (type(e).__name__, str(e)[:90]))
sys.exit(1 if bad else 0)
