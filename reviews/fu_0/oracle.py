from fractions import Fraction
import math
def rnd(q, method):
    # q Fraction
    if method in ('trunc','fix'):
        return math.trunc(q)
    if method == 'floor': return math.floor(q)
    if method == 'ceil': return math.ceil(q)
    if method == 'around':
        return round(q)  # Fraction round: ties to even
    raise ValueError
def bounds(signed, n_word):
    if signed: return -(1<<(n_word-1)), (1<<(n_word-1))-1
    return 0, (1<<n_word)-1
def ovf(c, signed, n_word, mode):
    lo, hi = bounds(signed, n_word)
    if mode == 'saturate':
        return min(max(c, lo), hi)
    m = 1 << n_word
    c = c % m
    if signed and c >= m//2: c -= m
    return c
def quant(v, signed, n_word, n_frac, rounding='trunc', overflow='saturate'):
    """v Fraction/int -> (code, over, under, inexact)"""
    v = Fraction(v)
    r = rnd(v * Fraction(2)**n_frac, rounding)
    lo, hi = bounds(signed, n_word)
    c = ovf(r, signed, n_word, overflow)
    return c, r > hi, r < lo, Fraction(c, 1) / Fraction(2)**n_frac != v
