"""Commit 4067661 (numpy scalars held in an object array become python numbers before bias / scale ...)

A 0-dimensional object array that holds a numpy number, stored into an object whose bias is non-zero and whose scale is a
narrow numpy float (float16 / float32), is now biased and scaled in the *narrow type of the scale*:
  - the new block turns the np.float64 / np.int32 element into a python number,
  - `val - self.bias` on a 0-d object array returns a bare python scalar (not an array),
  - `python_scalar / np.float16(scale)` is evaluated in float16 (NEP 50: the python number is the weak operand).
Before the commit the element stayed np.float64 / np.int32 and the quotient was a double (correct code).

Oracle: code = ROUND((v - b) / s * 2**n_frac) in exact arithmetic (Fractions), C17 / C01.
"""
import sys, warnings
from fractions import Fraction
import numpy as np
from fxpmath import Fxp
warnings.simplefilter('ignore')

def expected(v, s, b, signed, n_word, n_frac, overflow):
    r = (Fraction(v) - Fraction(float(b))) / Fraction(float(s)) * Fraction(2) ** n_frac
    assert r.denominator == 1          # exact: no rounding involved at all
    r = int(r)
    lo, hi = (-(1 << (n_word - 1)), (1 << (n_word - 1)) - 1) if signed else (0, (1 << n_word) - 1)
    over, under = r > hi, r < lo
    if overflow == 'saturate':
        c = min(max(r, lo), hi)
    else:
        c = r % (1 << n_word)
        if signed and c >= 1 << (n_word - 1): c -= 1 << n_word
    return c, over, under

bad = 0
cases = [
    # element,                 scale,            bias,              format,          overflow
    (np.float64(30.2578125),   np.float16(0.5),  np.float16(0.25),  (True, 16, 8),   'saturate'),   # C17 domain: n_word 16, dyadic scale/bias, exact doubles
    (np.float32(30.2578125),   np.float16(0.5),  np.float16(0.25),  (True, 16, 8),   'saturate'),
    (np.int32(980912589),      np.float16(0.5),  np.float16(0.25),  (False, 52, 7),  'wrap'),
    (30.2578125,               np.float16(0.5),  np.float16(0.25),  (True, 16, 8),   'saturate'),   # python float element: same failure (was already wrong before the commit)
]
for elem, s, b, fmt, ovf in cases:
    a = np.empty((), dtype=object); a[()] = elem          # 0-d object array
    x = Fxp(None, *fmt, overflow=ovf, scale=s, bias=b); x.reset()
    x(a)
    c, over, under = expected(elem if not isinstance(elem, np.generic) else elem.item(), s, b, *fmt, ovf)
    got = int(x.val)
    flags = (x.status['overflow'], x.status['underflow'], x.status['inaccuracy'])
    if got != c or flags != (over, under, False):
        bad += 1
        print('DEFECT: 0-d object array holding {!r} into {} scale={!r} bias={!r} {}: code {} flags(over,under,inexact)={} - expected code {} flags {}; read back {!r}'.format(
            elem, x.dtype, s, b, ovf, got, flags, c, (over, under, False), x.get_val()))
    # same element in a 1-element object array / as a plain scalar is stored correctly (carrier independence, C01)
    a1 = np.empty((1,), dtype=object); a1[0] = elem
    y = Fxp(None, *fmt, overflow=ovf, scale=s, bias=b); y.reset(); y(a1)
    if int(y.val[0]) != c:
        bad += 1; print('DEFECT (1-element object array too):', elem, int(y.val[0]), c)
sys.exit(1 if bad else 0)
