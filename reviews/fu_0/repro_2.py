"""Commit 864f05a (upper, lower and precision of a scaled object are not evaluated in float32 / float16 ...)

The repair only recognises numpy *scalars* (isinstance(self.scale, np.floating)). A scale or bias given as a 0-dimensional
array of a narrow float type still makes `scale * upper + bias` a float16 / float32 result: the limits come out rounded to
the parameter's type (python float * 0-d float16 array -> float16, the python float being the weak operand).

Oracle (C02 / C17): upper = s*max_code*2**-n_frac + b, lower = s*min_code*2**-n_frac + b, precision = s*2**-n_frac, exactly.
"""
import sys, warnings
from fractions import Fraction
import numpy as np
from fxpmath import Fxp
warnings.simplefilter('ignore')
bad = 0
signed, n_word, n_frac = True, 16, 8
hi, lo = (1 << 15) - 1, -(1 << 15)
for s, b in [(np.array(0.5, dtype=np.float16), 0),
             (np.float16(0.5), np.array(0.25, dtype=np.float16)),
             (np.array(0.5, dtype=np.float32), np.array(0.25, dtype=np.float16)),
             (np.float16(0.5), np.float16(0.25))]:            # (scalars: repaired, for reference)
    x = Fxp(3.25, signed, n_word, n_frac, scale=s, bias=b)
    S, B = Fraction(float(s)), Fraction(float(b))
    exp = {'upper': S * Fraction(hi, 2 ** n_frac) + B, 'lower': S * Fraction(lo, 2 ** n_frac) + B, 'precision': S / 2 ** n_frac}
    # the value itself is stored and read back correctly
    code = int((Fraction(3.25) - B) / S * 2 ** n_frac)
    if int(x.val) != code or Fraction(float(x.get_val())) != Fraction(3.25):
        bad += 1; print('DEFECT value', x.val, x.get_val())
    for k, e in exp.items():
        g = getattr(x, k)
        if Fraction(float(g)) != e:
            bad += 1
            print('DEFECT: Fxp(3.25, True, 16, 8, scale={!r}, bias={!r}).{} = {!r}, expected {!r}'.format(s, b, k, g, float(e)))
sys.exit(1 if bad else 0)
