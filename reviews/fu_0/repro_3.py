"""Commit 5f708fc (a list mixing numpy integers with python integers beyond 64 bits keeps the integers ...)

Left behind: numpy also chooses float64 for a list that mixes an np.uint64 with python integers (or signed numpy integers)
*below* 2**63 - uint64 and int64 have no common integer type. The fallback to an object array is only taken when
max|v| >= 2**63 (objects.py: `np.max(np.abs(val)) >= 2**63`), so integers between 2**53 and 2**63 lose their low bits
without any flag.

Oracle: an in-range python integer is stored bit-exactly (C18: 64+ bit words; C03: wrap is exact modular arithmetic).
"""
import sys, warnings
import numpy as np
from fxpmath import Fxp
warnings.simplefilter('ignore')
bad = 0
big = 2**62 + 1
def wrap(k, signed, n):
    k %= 1 << n
    return k - (1 << n) if signed and k >= 1 << (n - 1) else k
cases = [
    ([np.uint64(3), big],                (True, 64, 0),   'saturate', False),
    ([np.uint64(3), big],                (False, 128, 0), 'saturate', False),
    ([np.uint64(3), big],                (True, 64, 0),   'saturate', True),     # as raw codes
    ([np.uint64(big), -1],               (True, 64, 0),   'saturate', False),
    ([np.uint64(2**53 + 1), np.int64(1)],(True, 64, 0),   'saturate', False),
    ([np.uint64(3), big],                (True, 16, 0),   'wrap',     False),    # 2**62+1 mod 2**16 = 1
    ((2**53 + 1, np.uint64(1)),          (True, 64, 0),   'saturate', False),    # tuple
]
for lst, fmt, ovf, raw in cases:
    keep = list(lst)
    x = Fxp(lst, *fmt, overflow=ovf, raw=raw)
    got = [int(c) for c in x.val.tolist()]
    exp = [int(v) if ovf == 'saturate' else wrap(int(v), fmt[0], fmt[1]) for v in lst]
    if got != exp:
        bad += 1
        print('DEFECT: Fxp({!r}, signed={}, n_word={}, n_frac={}, overflow={!r}, raw={}) stores {} - expected {} (numpy made the list {}); status {}'.format(
            keep, *fmt, ovf, raw, got, exp, np.array(keep).dtype, x.status))
# by index and through set_val as well
x = Fxp([0, 0], True, 64, 0); x[...] = [np.uint64(3), big]
if [int(c) for c in x.val.tolist()] != [3, big]:
    bad += 1; print('DEFECT: x[...] = [np.uint64(3), 2**62+1] stores', x.val.tolist())
# reference: the same integers as python integers only are stored exactly
x = Fxp([3, big], True, 64, 0)
assert [int(c) for c in x.val.tolist()] == [3, big]
sys.exit(1 if bad else 0)
