"""Commit c6f2502 (a result object or template with scale or bias takes the value of the calculation ...)

Left behind (note: operands with scale / bias are outside the stated domains of C07 / C08; reported as an inconsistency of the
repair itself): the repair switches to the value when the *second* operand is scaled only if a template (out_like) is given.
Without a template, or with out=, the raw method still adds the raw code of the scaled second operand as if it were unscaled,
while y + x (scaled operand first) and method='repr' give the right value.
"""
import sys, warnings
from fractions import Fraction
import fxpmath
from fxpmath import Fxp
warnings.simplefilter('ignore')
bad = 0
x = Fxp(1.5, True, 8, 2)
y = Fxp(3.0, True, 8, 2, scale=2, bias=1)        # code 4, value 2*(4/4)+1 = 3.0
assert float(y.get_val()) == 3.0
exp = 4.5
o = Fxp(0, True, 16, 4)
for tag, f in [('add(x, y)', lambda: fxpmath.functions.add(x, y)),
               ('x + y', lambda: x + y),
               ('add(x, y, out=o)', lambda: fxpmath.functions.add(x, y, out=o)),
               ('add(x, y, out_like=o)  [repaired]', lambda: fxpmath.functions.add(x, y, out_like=o)),
               ('add(y, x)  [reference]', lambda: fxpmath.functions.add(y, x)),
               ("add(x, y, method='repr')  [reference]", lambda: fxpmath.functions.add(x, y, method='repr'))]:
    z = f()
    if float(z.get_val()) != exp:
        bad += 1
        print('DEFECT: {} = {!r} ({}), expected {}'.format(tag, z.get_val(), z.dtype, exp))
sys.exit(1 if bad else 0)
