"""
Commit e525e1e ("a numpy integer scale or bias is used as a python integer on read ...").

Reading ONE element as a python scalar (x.item(i), x.astype(t, item=i), x.get_val(item=i)) of an object
whose scale or bias is a narrow numpy float (float16 / float32) evaluates  val * scale + bias  with a python
number on the left: numpy then calculates in the narrow type of the parameter. Since the commit turns the
OTHER parameter into a python integer as well, nothing is left to promote the result to a double: the value
comes back rounded to float16/float32 (or as inf), while x() / x.astype(float)[i] return the exact value.
  - scale=np.int64(3),  bias=np.float16(0.5): exact before the commit, rounded to float16 after it (regression)
  - scale=np.float16(8), bias=np.int64(2**40): exact before the commit, inf after it (regression)
  - scale=np.float16(1.5), bias=1 (python int): wrong before and after (left behind)

Property C17: reading returns s*code*2^-n_frac + b (n_word <= 16, dyadic scale and bias, every intermediate
an exact double - all of these are).
exit 1 while the defect is present.
"""
import sys, warnings
from fractions import Fraction as F
import numpy as np
from fxpmath import Fxp

warnings.simplefilter('ignore')
cases = [
    # signed, n_word, n_frac, scale, bias, code
    (False, 12, 0, np.int64(3),     np.float16(0.5),   4095),   # 3*4095 + 0.5       = 12285.5
    (False, 7,  3, np.float16(8),   np.int64(2**40),   89),     # 8*89/8 + 2^40      = 1099511627865
    (False, 11, 1, np.float16(1.5), 1,                 2047),   # 1.5*2047/2 + 1     = 1536.25
    (True,  11, 2, np.float32(0.5), np.int32(-2**31),  1023),   # 0.5*1023/4 - 2^31  = -2147483520.125
    (False, 15, 3, 1,               np.float16(1.0),   32767),  # 32767/8 + 1        = 4096.875
]
bad = 0
for signed, n_word, n_frac, scale, bias, code in cases:
    x = Fxp(None, signed, n_word, n_frac, scale=scale, bias=bias)
    x.set_val([code, 0], raw=True)
    assert int(x.val[0]) == code
    s = F(scale.item() if isinstance(scale, np.generic) else scale)
    b = F(bias.item() if isinstance(bias, np.generic) else bias)
    expected = s * F(code, 2**n_frac) + b
    assert F(float(expected)) == expected            # an exact double
    whole = x()[0]
    reads = {'x()[0]': whole, 'x.item(0)': x.item(0), 'x.astype(float, item=0)': x.astype(float, item=0), 'x.get_val(item=0)': x.get_val(item=0)}
    for how, got in reads.items():
        g = float(got)
        ok = (g == g and abs(g) != float('inf') and F(g) == expected)
        if not ok:
            bad += 1
            print('scale=%r bias=%r fxp-%s%d/%d code=%d: %s -> %r, expected %s' % (scale, bias, 'su'[not signed], n_word, n_frac, code, how, got, float(expected)))
if bad:
    print('DEFECT PRESENT: %d wrong single element reads' % bad)
    sys.exit(1)
print('ok')
sys.exit(0)
