"""
Commit 250963b ("the value based dot product of wide integer operands is calculated with python integers again").

The switch to python integers is taken when  n_word(x) + n_word(y) >= 63  - the test that is right for ONE sum or
ONE product.  A dot product ACCUMULATES shape[-1] products: with words that add up to 60..62 bits the values stay
int64 and the accumulated sum wraps around silently (no flag), although the optimal result format (which does count
the ceil(log2(n)) extra bits) holds the exact result.  The integer-code ('raw') method is exact for the same call.

  x = y = Fxp([-2**30]*8, signed=True, n_word=31, n_frac=0)
  x.dot(y, method='repr')  -> fxp-s65/0 holding -2**63 ;  exact: 8 * 2**60 = +2**63

Properties: C15 (dot with optimal sizing never overflows / is exact) and C08 (raw and repr methods agree); the operand
words are beyond the n_word<=12 domain of C15 - it is the very case the commit set out to repair.
exit 1 while the defect is present.
"""
import sys, warnings
import numpy as np
from fxpmath import Fxp
warnings.simplefilter('ignore')

bad = 0
cases = [
    (True, 31, True, 31, [-2**30]*8, [-2**30]*8),                       # 8 * 2^60 = 2^63
    (False, 31, False, 31, [2**31-1]*3, [2**31-1]*3),                   # 3 * (2^31-1)^2 > 2^63
    (False, 32, False, 30, [2**32-1]*4, [2**30-1]*4),
    (True, 20, True, 42, [-2**19]*5, [-2**41]*5),                       # 5 * 2^60
]
for sx, nwx, sy, nwy, cx, cy in cases:
    x = Fxp(cx, sx, nwx, 0)
    y = Fxp(cy, sy, nwy, 0)
    expected = sum(a*b for a, b in zip(cx, cy))          # python integers
    for method in ('raw', 'repr'):
        z = x.dot(y, method=method)
        got = int(z.val)
        if got != expected or z.status['overflow'] or z.status['underflow']:
            bad += 1
            print('%s%d . %s%d, %d elements, method=%s -> %s code %d, expected %d  (flags %s)' % (
                'su'[not sx], nwx, 'su'[not sy], nwy, len(cx), method, z.dtype, got, expected,
                [k for k, v in z.status.items() if v]))
if bad:
    print('DEFECT PRESENT')
    sys.exit(1)
print('ok')
sys.exit(0)
