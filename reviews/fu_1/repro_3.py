"""
Commit 4949ccf ("an object made complex by a dtype string holds its codes as complex numbers too (a complex value
written by index into it lost its imaginary part without any flag ...)").

_hold_complex_codes() is only reached from the constructor when the value type is not complex yet after the store
(objects.py:245 `... and self.vdtype != complex`).  With raw=True, or with a fixed-point object as value, set_val keeps the
value type `complex` that line 224 put there, so the hook is skipped and the object labelled '...-complex' still holds
int64 codes; any later raw write / equal() (set_val with raw=True) puts int64 codes back as well.  An element taken out of
such an object is a numpy int64 scalar, and a complex value written into it by index loses its imaginary part - numpy
ComplexWarning only, no inaccuracy flag, element still labelled complex: exactly what the commit describes as repaired.

Properties: C04 (inaccuracy raised iff a stored element differs from its input), C01/C10 (a value is stored the same way by
every route: the same write into the object built from a plain value keeps 1+2j).
exit 1 while the defect is present.
"""
import sys, warnings
import numpy as np
from fxpmath import Fxp
warnings.simplefilter('ignore')

dt = 'fxp-s8/0-complex'
def by_resize():
    x = Fxp([1, 2, 3], True, 8, 0); x.resize(dtype=dt); return x
routes = {
    'Fxp([1,2,3], dtype=dt)                      ': lambda: Fxp([1, 2, 3], dtype=dt),
    'Fxp([1,2,3], True,8,0).resize(dtype=dt)      ': by_resize,
    'Fxp([1,2,3], dtype=dt, raw=True)             ': lambda: Fxp([1, 2, 3], dtype=dt, raw=True),
    'Fxp(Fxp([1,2,3], True, 8, 0), dtype=dt)      ': lambda: Fxp(Fxp([1, 2, 3], True, 8, 0), dtype=dt),
    'Fxp([1,2,3], dtype=dt).set_val(.., raw=True) ': lambda: Fxp([1, 2, 3], dtype=dt).set_val([1, 2, 3], raw=True),
    'Fxp([0,0,0], dtype=dt).equal(Fxp([1,2,3]..)) ': lambda: Fxp([0, 0, 0], dtype=dt).equal(Fxp([1, 2, 3], True, 8, 0)),
}
bad = 0
for name, make in routes.items():
    x = make()
    assert x.dtype == dt, x.dtype
    e = x[1]                      # an element of the complex object
    e[()] = 1 + 2j                # representable exactly in fxp-s8/0-complex: code 1+2j, no flag
    code = complex(e.val)
    ok = (code == 1 + 2j) and not e.status['inaccuracy'] and e.dtype == dt and complex(e()) == 1 + 2j
    if not ok:
        bad += 1
        print('%s codes held as %-10s  x[1][()] = 1+2j -> code %r, value %r, inaccuracy=%s, dtype %s   (expected code (1+2j), value (1+2j))' % (
            name, np.asarray(x.val).dtype, e.val, e(), e.status['inaccuracy'], e.dtype))
if bad:
    print('DEFECT PRESENT')
    sys.exit(1)
print('ok')
sys.exit(0)
