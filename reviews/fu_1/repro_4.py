"""
Commit 4949ccf (_hold_complex_codes): REGRESSION for words of 55..63 bits (outside the n_word<=52 domains of C01/C12:
reported as an observation).  The int64 codes of an object made complex by a dtype string are converted to complex128,
whose components are doubles: codes beyond 2^53 are rounded silently (no inaccuracy flag).  Before the commit the codes
stayed int64 and were exact.

  Fxp(2**58 + 1, dtype='fxp-s60/0-complex')  -> code 2**58 (value 2**58), inaccuracy False
exit 1 while the defect is present.
"""
import sys, warnings
import numpy as np
from fxpmath import Fxp
warnings.simplefilter('ignore')
bad = 0
for n_word in (55, 60, 63):
    v = 2**(n_word - 2) + 1
    dt = 'fxp-s%d/0-complex' % n_word
    x = Fxp(v, dtype=dt)
    c = np.asarray(x.val).item()
    code = int(c.real) if isinstance(c, complex) else int(c)
    y = Fxp([v, 3], True, n_word, 0); y.resize(dtype=dt)
    c2 = np.asarray(y.val).ravel().tolist()[0]
    code2 = int(c2.real) if isinstance(c2, complex) else int(c2)
    for how, got, obj in (('Fxp(v, dtype=dt)', code, x), ('resize(dtype=dt)', code2, y)):
        if got != v and not obj.status['inaccuracy']:
            bad += 1
            print('%s %s: code %d stored for the integer %d (off by %d), inaccuracy flag %s' % (dt, how, got, v, got - v, obj.status['inaccuracy']))
if bad:
    print('DEFECT PRESENT')
    sys.exit(1)
print('ok')
sys.exit(0)
