"""
Commit 8d636f5 (index write into a scalar / element): residue for words of 64 bits and more (outside the core domains:
reported as an observation).  The commit message names "written into a complex scalar it made the object real" as repaired;
that holds for n_word < 64 only.  For n_word >= 64 the stored code IS a python integer, so objects.py:967 still builds an
object array, and the complex scalar is replaced by a bare python int: the object turns real (dtype loses '-complex') and
.shape / .size / .ndim raise AttributeError.

  x = Fxp(1+1j, True, 64, 0);  x[()] = 3   ->  x.val == 3 (python int), x.dtype == 'fxp-s64/0', x.shape raises
exit 1 while the defect is present.
"""
import sys, warnings
import numpy as np
from fxpmath import Fxp
warnings.simplefilter('ignore')
bad = 0
for n_word in (8, 63, 64, 72):
    x = Fxp(1 + 1j, True, n_word, 0)
    x[()] = 3
    problems = []
    if not isinstance(x.val, (np.ndarray, np.generic)):
        problems.append('val is a bare %s' % type(x.val).__name__)
    if not x.dtype.endswith('-complex'):
        problems.append('dtype %s lost the complex suffix' % x.dtype)
    try:
        x.shape
    except Exception as e:
        problems.append('x.shape raises %s' % type(e).__name__)
    if problems:
        bad += 1
        print('n_word=%d: complex scalar, x[()] = 3 -> %s' % (n_word, '; '.join(problems)))
if bad:
    print('DEFECT PRESENT')
    sys.exit(1)
print('ok')
sys.exit(0)
