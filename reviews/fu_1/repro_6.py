"""
Commit e525e1e (scaled read, objects.py:1122-1132): left behind on the ARRAY / numpy-scalar side of the same expression.

The commit makes  astype(int, item=i)  exact when an integer scale meets a float bias (python integers).  The same
parameter mix read WITHOUT item= (x.astype(int), int(x[i]), int(x)) still multiplies the int64 codes by the integer scale
in int64: the guard that switches to python integers (objects.py:1125-1128) requires BOTH parameters to be integers, so
with a float bias the product wraps around modulo 2^64 silently.

  x = Fxp(None, False, 16, 0, scale=np.int64(2**48) [or 2**48], bias=2.0**50);  x.set_val([65535, 1], raw=True)
  x.astype(int)[0] -> 844424930131968 (= 3*2^48)      exact: 65535*2^48 + 2^50 = 18447588498639683584  (an exact double)
  x()[0], x.astype(int, item=0)                       -> 18447588498639683584 (right)

Property C17 (reading returns s*code*2^-n_frac + b; n_word<=16, dyadic parameters, every intermediate an exact double) and
C16 (astype(int)/int() return the floor of the value).
exit 1 while the defect is present.
"""
import sys, warnings
import numpy as np
from fxpmath import Fxp
warnings.simplefilter('ignore')
bad = 0
for scale in (np.int64(2**48), 2**48):
    for bias in (2.0**50, np.float32(2.0**50)):
        x = Fxp(None, False, 16, 0, scale=scale, bias=bias)
        x.set_val([65535, 1], raw=True)
        expected = 65535 * 2**48 + 2**50
        assert float(expected) == expected and int(float(expected)) == expected
        reads = {'x.astype(int)[0]': lambda: x.astype(int)[0], 'int(x[0])': lambda: int(x[0]),
                 'x.astype(int, item=0)': lambda: x.astype(int, item=0), 'x()[0]': lambda: x()[0]}
        for how, f in reads.items():
            try:
                got = f()
                ok = int(got) == expected
            except Exception as e:
                got, ok = '%s: %s' % (type(e).__name__, e), False
            if not ok:
                bad += 1
                print('scale=%r bias=%r fxp-u16/0 code 65535: %s -> %r, expected %d' % (scale, bias, how, got, expected))
if bad:
    print('DEFECT PRESENT')
    sys.exit(1)
print('ok')
sys.exit(0)
