from fractions import Fraction
import math
def rnd(x, method):
    x = Fraction(x)
    if method == 'floor': return math.floor(x)
    if method == 'ceil': return math.ceil(x)
    if method in ('trunc','fix'): return math.trunc(x)
    if method == 'around': return round(x)
    raise ValueError
def quant(v, signed, n_word, n_frac, rounding='trunc', overflow='saturate', raw=False):
    """v: Fraction/int. returns code, ovf, unf, inacc"""
    v = Fraction(v)
    s = v if raw else v * Fraction(2)**n_frac
    r = rnd(s, rounding)
    if signed:
        mx = 2**(n_word-1)-1; mn = -2**(n_word-1)
    else:
        mx = 2**n_word-1; mn = 0
    ovf = r > mx; unf = r < mn
    if overflow == 'saturate':
        c = min(max(r, mn), mx)
    else:
        c = r % 2**n_word
        if signed and c >= 2**(n_word-1): c -= 2**n_word
    inacc = (Fraction(c) != s)
    return c, ovf, unf, inacc
