"""Commit 1dd3cf9 (complex value written by index into real codes): a chained indexed assignment of a complex value,
x[i][j] = c, into an array that holds real codes is lost completely (x keeps its old element, no flag, no error).
The view x[i] re-binds its own buffer to a complex copy (objects.py set_val: self.val = self.val.astype(complex))
before it writes, so the write never reaches x.  C20: chained indexed assignment writes through; C01: indexed assignment
stores the quantized value (each component of a complex one)."""
import sys, warnings
import numpy as np
from fxpmath import Fxp
warnings.simplefilter('ignore')

bad = []
# expected codes by hand: n_frac = 4 -> 2.5+1.5j -> 40+24j ; others 1,2,3,4 -> 16,32,48,64
x = Fxp([[1, 2], [3, 4]], True, 16, 4)
x[0][1] = 2.5 + 1.5j
got = [complex(v) for v in np.asarray(x.val).ravel().tolist()]
exp = [16 + 0j, 40 + 24j, 48 + 0j, 64 + 0j]
if got != exp:
    bad.append(('chained x[0][1] = 2.5+1.5j  (s16/4)', 'codes', got, 'expected', exp, 'dtype', x.dtype, 'status', x.status))

# the same write done directly works: the two routes must agree
y = Fxp([[1, 2], [3, 4]], True, 16, 4)
y[0, 1] = 2.5 + 1.5j
goty = [complex(v) for v in np.asarray(y.val).ravel().tolist()]
if goty != exp:
    bad.append(('direct x[0,1] = 2.5+1.5j', goty, exp))

# a view taken before stays a view for real writes, but stops being one after it received a complex value
z = Fxp([[1, 2], [3, 4]], True, 16, 4)
row = z[1]
row[0] = 1j          # lost for z
row[1] = 7           # lost for z too: row no longer shares its buffer with z
gotz = [complex(v) for v in np.asarray(z.val).ravel().tolist()]
expz = [16 + 0j, 32 + 0j, 0 + 16j, 112 + 0j]
if gotz != expz:
    bad.append(('row = z[1]; row[0] = 1j; row[1] = 7', 'codes of z', gotz, 'expected', expz))

# a view taken before the parent received a complex value by index is cut off from it as well
p = Fxp([[1, 2], [3, 4]], True, 16, 4)
prow = p[0]
p[1, 0] = 1j         # p re-binds its buffer: prow keeps the old one
prow[0] = 7          # must be visible in p (7 -> code 112)
gotp = complex(np.asarray(p.val).ravel().tolist()[0])
if gotp != 112 + 0j:
    bad.append(('prow = p[0]; p[1,0] = 1j; prow[0] = 7', 'code p[0,0]', gotp, 'expected', 112 + 0j))

# in-place operator on a chained element
w = Fxp([[1, 2], [3, 4]], True, 16, 4)
w[0][0] += 1j
gotw = complex(np.asarray(w.val).ravel().tolist()[0])
if gotw != 16 + 16j:
    bad.append(('w[0][0] += 1j', 'code', gotw, 'expected', 16 + 16j))

for b in bad:
    print('DEFECT:', b)
sys.exit(1 if bad else 0)
