"""Left behind by commit 1dd3cf9: the repair converts real codes to complex only when the holder is an ndarray
(objects.py: `if isinstance(self.val, np.ndarray) and self.val.dtype.kind in 'iu'`).  An element taken out of a real
array holds a numpy scalar (np.int64): a complex value written into it by index (e[()] = c, e[...] = c) still loses
its imaginary part with a numpy warning only: no inaccuracy flag, and the object is labelled complex.
C01 (indexed assignment, each component of a complex value), C04 (inaccuracy iff a stored element differs from its input)."""
import sys, warnings
import numpy as np
from fxpmath import Fxp
warnings.simplefilter('ignore')

bad = []
for idx in [(), Ellipsis]:
    x = Fxp([1, 2], True, 16, 4)
    e = x[0]
    e[idx] = 1 + 2j           # 1+2j is representable in s16/4: codes 16+32j, no flag
    code = complex(e.val)
    val = complex(e.get_val())
    if code != 16 + 32j or val != 1 + 2j:
        bad.append(('e = x[0]; e[%r] = 1+2j' % (idx,), 'code', code, 'expected', 16 + 32j, 'value', val, 'dtype', e.dtype,
                    'inaccuracy flag', e.status['inaccuracy']))
for b in bad:
    print('DEFECT:', b)
sys.exit(1 if bad else 0)
