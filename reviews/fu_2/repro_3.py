"""Left behind by commit af32f1b (+ b582af8): the rescaling of a raw value to the fraction length that the size search
chose is applied to integer carriers only (objects.py __init__: `_raw_val.dtype.kind in 'iu'` or an object array of
integers).  Raw values carried as floats (python float, numpy floating scalar/array, list of floats) or as Fractions
are still stored unscaled - and Fractions / float arrays are exactly what the library's own raw arithmetic hands to the
constructor when fraction bits are dropped (functions._scale_raw_result, utils.scale_raw), e.g. with sizing='fit'."""
import sys, warnings
import numpy as np
from fractions import Fraction
from fxpmath import Fxp
import fxpmath
warnings.simplefilter('ignore')
bad = []

# 1) raw 1000 with n_frac=4 is the value 1000/16 = 62.5. Word limited to 8 bits, signed: 6 integer bits + sign leave 1 fraction
#    bit -> s8/1, code 62.5*2 = 125, exactly representable (no flag).  The integer carrier gives that; every other carrier must too.
carriers = {'int': 1000, 'float': 1000.0, 'np.float64': np.float64(1000.0), 'np.float32': np.float32(1000.0),
            'float array': np.array([1000.0]), 'float list': [1000.0], 'Fraction array': np.array([Fraction(1000)], dtype=object)}
for name, v in carriers.items():
    z = Fxp(v, raw=True, n_frac=4, n_word_max=8)
    code = [int(c) for c in np.asarray(z.val).ravel().tolist()]
    if z.dtype != 'fxp-s8/1' or code != [125] or z.status['overflow'] or z.status['inaccuracy']:
        bad.append(('Fxp(%s 1000, raw=True, n_frac=4, n_word_max=8)' % name, z.dtype, 'code', code, 'expected fxp-s8/1 code [125] no flag',
                    {k: v for k, v in z.status.items() if v}))

# 2) the same with the default limit of 64 bits: raw 2**70 with n_frac=20 is 2**50 -> s64/12, code 2**62
z = Fxp(2.0**70, raw=True, n_frac=20)
if int(z.val) != 2**62 or z.status['overflow']:
    bad.append(('Fxp(2.0**70, raw=True, n_frac=20)', z.dtype, 'code', int(z.val), 'expected', 2**62, z.status))

# 3) operator route: x*y with sizing 'fit'.  x = 0.75 (u60/59), y = 3e8 (s63/31): exact product 2.25e8.
#    The format the library picks is s64/35 (|v| < 2**28 = 268435456): the product fits, its code is 225000000 * 2**35.
x = Fxp(0.75, False, 60, 59); y = Fxp(3.0e8, True, 63, 31)
for tag, f in (('fxpmath.mul(x, y, sizing="fit")', lambda: fxpmath.mul(x, y, sizing='fit')),):
    z = f()
    exp = Fraction(225000000)
    got = Fraction(int(z.val)) / Fraction(2)**z.n_frac
    lim = Fraction(2)**(z.n_word - 1 - z.n_frac)
    if -lim <= exp < lim and (abs(got - exp) >= Fraction(1, 2**z.n_frac) or z.status['overflow']):
        bad.append((tag, z.dtype, 'value', float(got), 'expected', float(exp), 'which fits in the format chosen', {k: v for k, v in z.status.items() if v}))
x.config.op_sizing = 'fit'
z = x * y
got = Fraction(int(z.val)) / Fraction(2)**z.n_frac
if abs(got - 225000000) >= Fraction(1, 2**z.n_frac):
    bad.append(('x*y with x.config.op_sizing="fit"', z.dtype, 'value', float(got), 'expected', 225000000.0, {k: v for k, v in z.status.items() if v}))

for b in bad:
    print('DEFECT:', b)
sys.exit(1 if bad else 0)
