"""
Commit 2613f3b ("a scaled second operand gives its value to the calculation like a scaled first operand does").

x (unscaled) op y (scaled) is now routed through the value based ('repr') calculation of _function_over_two_vars.  The guard that
switches that calculation to python integers (functions.py:213-217) only looks at the WORD LENGTHS of the operands
((x.n_word ...) + (y.n_word ...) + acc >= 63); the value of a scaled operand, code*scale + bias, is not bounded by its word length.
With an integer bias (scale 1, n_frac 0) the operand value is an int64, and the sum / product silently wraps around modulo 2**64:
a large POSITIVE exact result is stored as the LOWER bound with the underflow flag (C02: "never the opposite one", C04: flags, C19: no
intermediate silently reduced modulo 2**64).

Oracle: python integers only.
"""
import sys, warnings
import numpy as np
from fxpmath import Fxp

warnings.simplefilter('ignore')
fails = []

def expect(label, z, exact):
    # exact: python integer, the exact mathematical result of the operand values; z has n_frac == 0 in all the cases below
    assert z.n_frac == 0
    lo = -(1 << (z.n_word - 1)) if z.signed else 0
    hi = (1 << (z.n_word - 1)) - 1 if z.signed else (1 << z.n_word) - 1
    assert z.config.overflow == 'saturate'
    code = min(max(exact, lo), hi)
    of, uf = exact > hi, exact < lo
    got = int(np.asarray(z.val).ravel()[0])
    got_flags = (bool(z.status['overflow']), bool(z.status['underflow']))
    if got != code or got_flags != (of, uf):
        fails.append('%s: result %s  code=%d flags(over,under)=%s   expected code=%d flags=%s   (exact result %d)'
                     % (label, z.dtype, got, got_flags, code, (of, uf), exact))

# 1) both operands 16 bits: x = 30000 ; y holds code 5 with bias 2**50 -> value 2**50 + 5
x = Fxp(30000, True, 16, 0)
y = Fxp(2**50 + 5, True, 16, 0, bias=2**50)      # an integer value: the object reads as integers
assert int(y.val) == 5 and int(y.get_val()) == 2**50 + 5
yv = 5 * 1 + 2**50
expect('x*y   (s16/0 * s16/0 bias=2**50)', x * y, 30000 * yv)
x.config.op_method = 'repr'
expect('x*y   (method repr)', x * y, 30000 * yv)

# 2) a plain bias of 2**24: x is 40 bits wide, 40 + 16 < 63 so no python integers are used
x = Fxp(2**39 - 1, True, 40, 0)
y = Fxp(2**24 + 100, True, 16, 0, bias=2**24)
assert int(y.val) == 100 and int(y.get_val()) == 2**24 + 100
expect('x*y   (s40/0 * s16/0 bias=2**24)', x * y, (2**39 - 1) * (100 + 2**24))

# 3) sum
x = Fxp(100, True, 16, 0)
y = Fxp(2**63 - 10, True, 16, 0, bias=2**63 - 15)
assert int(y.val) == 5 and int(y.get_val()) == 2**63 - 10
expect('x+y   (s16/0 + s16/0 bias=2**63-15)', x + y, 100 + 5 + 2**63 - 15)
# 4) difference
y = Fxp(-(2**63) + 10, True, 16, 0, bias=-(2**63) + 15)
assert int(y.val) == -5 and int(y.get_val()) == -(2**63) + 10
expect('x-y   (s16/0 - s16/0 bias=-2**63+15)', x - y, 100 - (-5 - 2**63 + 15))

# 5) dot product
x = Fxp([30000, 30000], True, 16, 0)
y = Fxp([2**50 + 5, 2**50 + 5], True, 16, 0, bias=2**50)
assert [int(v) for v in y.val] == [5, 5] and [int(v) for v in y.get_val()] == [2**50 + 5] * 2
expect('dot(x,y)', np.dot(x, y), 2 * 30000 * yv)

if fails:
    print('DEFECT PRESENT: value based calculation with a scaled operand wraps around in int64')
    for f in fails:
        print('  ' + f)
    sys.exit(1)
print('ok')
sys.exit(0)
