"""
Commit c1fd227 ("scale and bias given as numpy integers, narrow numpy floats or 0-dimensional arrays are used as python numbers in the
conversion of the input, on read and in the limits").

The commit makes 0-dimensional arrays first-class scale / bias parameters, but only converts them at the places of use
(utils.python_number() in resize(), _format_inupt_val() and astype()).  The constructor still keeps the caller's array object itself
(objects.py:213-214  self.scale = kwargs.pop('scale', 1) / self.bias = kwargs.pop('bias', 0)).  The array is mutable, so
  * the object shares state with the caller's array and with every other object built with the same array (C20), and
  * after the array changes the value read back is no longer scale*code*2**-n_frac + bias of the parameters the value was stored with,
    and upper / lower / precision (computed once, with the old parameter) no longer belong to the values that are read (C02, C17).
"""
import sys
import numpy as np
from fxpmath import Fxp

fails = []
s = np.array(2.0)
b = np.array(1.0)
x = Fxp(7.0, True, 16, 4, scale=s, bias=b)      # (7 - 1) / 2 = 3.0 -> code 48
y = Fxp(9.0, True, 16, 4, scale=s, bias=b)      # (9 - 1) / 2 = 4.0 -> code 64
assert int(x.val) == 48 and int(y.val) == 64
assert float(x.get_val()) == 7.0 and float(y.get_val()) == 9.0
upper_before = float(x.upper)                    # 2 * 32767/16 + 1 = 4096.875
assert upper_before == 2 * 32767 / 16 + 1

s[()] = 4.0     # the caller re-uses his array; nothing is written into x or y

if x.scale is s:
    fails.append('x.scale is the caller\'s array object (shared mutable state)')
if float(x.get_val()) != 7.0:
    fails.append('x reads %r after the caller changed his array (stored 7.0, code still %d, no write to x)' % (float(x.get_val()), int(x.val)))
if float(y.get_val()) != 9.0:
    fails.append('y reads %r after the caller changed his array (stored 9.0, code still %d)' % (float(y.get_val()), int(y.val)))
# limits consistent with what is read: upper must be the value read for the maximum code
if float(x.upper) != float(np.asarray(x.scale).item()) * 32767 / 16 + float(np.asarray(x.bias).item()):
    fails.append('x.upper = %r but the maximum code now reads %r' % (float(x.upper), float(np.asarray(x.scale).item()) * 32767 / 16 + float(np.asarray(x.bias).item())))

if fails:
    print('DEFECT PRESENT: a 0-dimensional array given as scale / bias is kept by reference')
    for f in fails:
        print('  ' + f)
    sys.exit(1)
print('ok')
sys.exit(0)
