# commit a987302: `self.val.base is None` is used as "these codes are not a view into another object".
# Independent objects whose code array happens to have a base (x.T, x[:, [0, 2]]) no longer take a complex value by index:
# the imaginary part is dropped (numpy ComplexWarning only), no flag, while the object is labelled complex.
import sys, warnings
import numpy as np
from fxpmath import Fxp
warnings.simplefilter('ignore')

fail = []
def check(tag, y, idx, v, n_frac):
    y.reset()
    y[idx] = v
    got = complex(np.asarray(y.val)[idx])
    exp = complex(int(v.real * 2**n_frac), int(v.imag * 2**n_frac))     # exact: v is a multiple of the LSB
    back = complex(np.asarray(y.get_val())[idx])
    if got != exp or back != v or y.status['inaccuracy']:
        fail.append('%s: wrote %r, code %r (expected %r), read back %r, dtype %s, inaccuracy %s'
                    % (tag, v, got, exp, back, y.dtype, y.status['inaccuracy']))

x = Fxp([[1, 2, 3], [4, 5, 6]], True, 16, 4)
check('x.T[0, 1] = 2.5+1.5j', x.T, (0, 1), 2.5 + 1.5j, 4)                       # x.T is documented as an independent object (deepcopy)
check('x[:, [0, 2]][0, 0] = 2.5+1.5j', x[:, [0, 2]], (0, 0), 2.5 + 1.5j, 4)     # fancy index: a copy, with a base
# control: the same write into an object whose codes have no base works
check('control np.transpose(x)[0, 1]', np.transpose(x), (0, 1), 2.5 + 1.5j, 4)
if fail and not any(f.startswith('control') for f in fail):
    print('DEFECT (complex indexed write into an independent object with a based code array loses the imaginary part):')
    for f in fail: print('  ' + f)
    sys.exit(1)
if fail:
    print('unexpected:', fail); sys.exit(1)
print('ok')
