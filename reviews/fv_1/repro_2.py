# commit a987302 (left behind): a complex value written through a view (x[i][j] = v, or e = x[i]; e[j] = v) into an array of real codes
# "writes through", but only its real part: the imaginary part is lost with a numpy ComplexWarning, the inaccuracy flag is not raised
# (neither on the view nor on x) and the view is labelled complex although it holds (and shares) real codes.
import sys, warnings
import numpy as np
from fxpmath import Fxp
warnings.simplefilter('ignore')

x = Fxp([[1, 2, 3], [4, 5, 6]], True, 16, 4)
e = x[0]
e[1] = 2.5 + 1.5j           # both components are multiples of the LSB 2^-4: codes 40 and 24, nothing to round
stored = complex(np.asarray(x.val)[0, 1])
read = complex(np.asarray(x.get_val())[0, 1])
problems = []
if read != 2.5 + 1.5j:
    problems.append('value read back from x[0, 1] is %r, the value stored was (2.5+1.5j); code %r, expected (40+24j)' % (read, stored))
    if not (e.status['inaccuracy'] or x.status['inaccuracy']):
        problems.append('stored element differs from its input but no inaccuracy flag: view %s, x %s' % (e.status, x.status))
if ('complex' in e.dtype) != (np.asarray(e.val).dtype.kind == 'c') and complex(np.asarray(e.get_val())[1]) != 2.5 + 1.5j:
    problems.append('view dtype %s with codes of type %s' % (e.dtype, np.asarray(e.val).dtype))
# direct write for comparison
d = Fxp([[1, 2, 3], [4, 5, 6]], True, 16, 4); d[0, 1] = 2.5 + 1.5j
if complex(np.asarray(d.get_val())[0, 1]) != 2.5 + 1.5j:
    problems.append('direct write broken too')
if problems:
    print('DEFECT (x[i][j] = complex into real codes):')
    for p in problems: print('  ' + p)
    sys.exit(1)
print('ok')
