# commit e6459fc (left behind): complex raw values are still not rescaled when the size search shortens the fraction length.
# raw 1000+500j given for n_frac=4 is the value 62.5+31.25j; with n_word_max=8 the search picks s8/1, where it is representable
# exactly (codes 125 and 62.5 -> 62 with trunc). The raw value is stored unscaled instead and saturates.
import sys, warnings, math
from fractions import Fraction as F
import numpy as np
from fxpmath import Fxp
warnings.simplefilter('ignore')

def expected(raw, n_frac_asked, x):
    lo, hi = (-(1 << (x.n_word - 1)), (1 << (x.n_word - 1)) - 1) if x.signed else (0, (1 << x.n_word) - 1)
    c = math.trunc(F(raw) * F(2) ** (x.n_frac - n_frac_asked))
    return min(max(c, lo), hi)

fail = []
for tag, val in [('python complex', 1000 + 500j), ('complex128 array', np.array([1000 + 500j, 48 - 16j])), ('list', [1000 + 500j, 48 - 16j])]:
    x = Fxp(val, True, n_frac=4, raw=True, n_word_max=8)
    vals = np.atleast_1d(np.asarray(val, dtype=complex))
    got = [(int(c.real), int(c.imag)) for c in np.atleast_1d(np.asarray(x.val)).astype(complex)]
    exp = [(expected(int(v.real), 4, x), expected(int(v.imag), 4, x)) for v in vals]
    if got != exp or x.status['overflow']:
        fail.append('%s: %s codes %s expected %s, overflow=%s, value %s (given: %s)' % (tag, x.dtype, got, exp, x.status['overflow'], x.get_val(), vals / 16))
# control: the real case repaired by the commit
r = Fxp(1000.0, True, n_frac=4, raw=True, n_word_max=8)
if int(r.val) != expected(1000, 4, r): fail.append('control real float: %s %s' % (r.dtype, r.val))
if fail:
    print('DEFECT (complex raw value not rescaled to the shortened fraction length):')
    for f in fail: print('  ' + f)
    sys.exit(1)
print('ok')
