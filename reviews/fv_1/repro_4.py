# commit e6459fc (left behind, minor): a raw value given as float16 (scalar or array) is rescaled in float16 (numpy 2: float16 * python float -> float16).
# The factor 2^(n_frac_new - n_frac_asked) easily leaves the range of float16 (smallest subnormal 2^-24): the raw value becomes 0.0,
# nothing is flagged, and rounding modes that must see the residue (ceil / floor) store the wrong code. Lists of float16 (object route) and
# float32/float64 carriers give the right result.
import sys, warnings, math
from fractions import Fraction as F
import numpy as np
from fxpmath import Fxp
warnings.simplefilter('ignore')

fail = []
for tag, val in [('np.float16 scalar', np.float16(2.0)), ('float16 array', np.array([2.0], dtype=np.float16)),
                 ('float32 scalar (control)', np.float32(2.0)), ('python float (control)', 2.0)]:
    for rounding, rnd in (('ceil', math.ceil), ('trunc', math.trunc)):
        x = Fxp(val, True, n_frac=30, raw=True, n_word_max=4, rounding=rounding)
        # raw 2.0 at n_frac=30 is the value 2^-29; in the format chosen (s4/3) the exact scaled raw value is 2^-26
        exact = F(2) * F(2) ** (x.n_frac - 30)
        exp_code = rnd(exact)
        exp_inacc = (F(exp_code) != exact)
        got = int(np.asarray(x.val).ravel()[0])
        if got != exp_code or x.status['inaccuracy'] != exp_inacc:
            fail.append('%s, %s: %s code %d expected %d; inaccuracy %s expected %s' % (tag, rounding, x.dtype, got, exp_code, x.status['inaccuracy'], exp_inacc))
if fail:
    print('DEFECT (float16 raw value rescaled in float16 underflows to zero):')
    for f in fail: print('  ' + f)
    sys.exit(1)
print('ok')
