# commit 4acd8ee (left behind): the list is re-read as python integers only if every element is an `int` / `np.integer`.
# A 0-dimensional uint64 array (what x[i, ...] / np.asarray(scalar) hand over) or a numpy bool among the elements makes numpy choose float64 just
# the same, and the integers from 2^53 on still lose their low bits without any flag.
import sys, warnings
import numpy as np
from fxpmath import Fxp
warnings.simplefilter('ignore')

v = 2**60 + 1
fail = []
for tag, lst in [('0-d uint64 array + python int', [np.array(v, dtype=np.uint64), -1]),
                 ('np.uint64 + np.bool_', [np.uint64(v), np.bool_(True), -1]),
                 ('np.uint64 + python int (control, repaired)', [np.uint64(v), -1])]:
    for n_word in (64, 128):
        x = Fxp(lst, True, n_word, 0)
        got = [int(c) for c in np.asarray(x.val).astype(object).tolist()]
        exp = [int(e) for e in lst]
        if got != exp:
            fail.append('%s, n_word=%d: codes %s expected %s, flags %s' % (tag, n_word, got, exp, {k: x.status[k] for k in ('overflow', 'underflow', 'inaccuracy')}))
if fail:
    print('DEFECT (mixed list with a 0-d unsigned array / numpy bool still goes through float64):')
    for f in fail: print('  ' + f)
    sys.exit(1)
print('ok')
