# commit cce1e9b (performance note): the value based dot product counts ALL the elements of the larger operand as "number of terms"
# (np.size), not the length of the contraction (shape[-1], as the raw method does). Two N x N matrices of s24/0 need 24+24+log2(N) bits,
# which fit in int64 for every practical N; from N = 128 on (2*24 + bit_length(N*N) >= 63) they are converted to python integers and
# np.dot runs element by element on objects (measured: 200x200 0.04 s -> 0.77 s, 400x400 0.2 s -> 5.2 s, 1000x1000 minutes).
import sys, warnings
import numpy as np
from fxpmath import Fxp
warnings.simplefilter('ignore')

seen = []
_dot = np.dot
def dot(a, b, *args, **kwargs):
    seen.append((np.asarray(a).dtype, np.asarray(b).dtype))
    return _dot(a, b, *args, **kwargs)
np.dot = dot
try:
    N = 128
    rng = np.random.default_rng(0)
    a = rng.integers(-2**23, 2**23, size=(N, N)); b = rng.integers(-2**23, 2**23, size=(N, N))
    x = Fxp(a, True, 24, 0); y = Fxp(b, True, 24, 0)
    z = x.dot(y, method='repr')
finally:
    np.dot = _dot
need = 24 + 24 + N.bit_length()     # bits of the exact accumulated result
exact = np.array_equal(np.asarray(z.val).astype(object), a.astype(object).dot(b.astype(object)))
if not exact:
    print('wrong result'); sys.exit(1)
if need < 63 and any(d1 == object or d2 == object for d1, d2 in seen):
    print('PERFORMANCE DEFECT: %dx%d . %dx%d of s24/0 needs %d bits (fits int64) but np.dot was run on %s' % (N, N, N, N, need, seen))
    sys.exit(1)
print('ok')
