# commit a987302 (outside the stated domains: n_word 54..63): the new condition `self.n_word <= 53` keeps the real codes of such an array as
# integers on a complex indexed write - the imaginary part is then dropped by numpy (ComplexWarning), no flag is raised and the object is
# labelled complex. Before the commit x[1] = 2.5+1.5j on a fxp-s60/4 array stored (40+24j).
import sys, warnings
import numpy as np
from fxpmath import Fxp
warnings.simplefilter('ignore')
x = Fxp([1, 2, 3], True, 60, 4)
x[1] = 2.5 + 1.5j
got = complex(np.asarray(x.get_val())[1])
if got != 2.5 + 1.5j and not x.status['inaccuracy']:
    print('DEFECT: x[1] = 2.5+1.5j on fxp-s60/4 reads back %r, codes %s, dtype %s, inaccuracy %s' % (got, np.asarray(x.val).tolist(), x.dtype, x.status['inaccuracy']))
    sys.exit(1)
print('ok')
