"""LEFT-OVER of c8318bc (value based calculation wraps around in int64).

A scaled *scalar* operand whose value is computed with python integers (bias or value beyond int64: Fxp.astype() then returns a
python int, not a numpy integer) skips the new bit-count guard in functions._function_over_two_vars, because the guard only
looks at operands that are numpy arrays / numpy scalars. The other operand stays an int64 array and numpy evaluates
int64 (op) python-int in int64: the result wraps modulo 2**64 and is then saturated at the wrong bound (or not at all),
or numpy raises OverflowError when the python int itself does not fit in int64.

Run: cd /tmp/fw_0 && PYTHONPATH=/tmp/fw_0 /venv/bin/python review/repro_1.py
"""
import sys, warnings
from fractions import Fraction as F
import numpy as np
warnings.simplefilter('ignore')
from fxpmath import Fxp

def sat(v, signed, n_word, n_frac):          # independent oracle: trunc + saturate
    c = v * F(2) ** n_frac
    c = int(c) if c >= 0 else -int(-c)
    lo, hi = (-(1 << (n_word - 1)), (1 << (n_word - 1)) - 1) if signed else (0, (1 << n_word) - 1)
    return min(max(c, lo), hi), c > hi, c < lo

bad = 0
# x: format s16/0, bias -2**63, code 0  -> value exactly -2**63 (an exact double, a python int inside the library)
x = Fxp(-2**63, True, 16, 0, bias=-2**63)
assert int(x.val) == 0 and not any(x.status[k] for k in ('overflow', 'underflow', 'inaccuracy'))
vx = F(-2**63)
for name, yvals, op in (('x + y', [-2, -3], lambda a, b: a + b), ('x - y', [2, 3], lambda a, b: a - b),
                        ('x * y', [2], lambda a, b: a * b), ('y * x', [2], lambda a, b: b * a)):
    y = Fxp(yvals, True, 16, 0)
    z = op(x, y) if name != 'y * x' else y * x
    exact = [op(vx, F(v)) if name != 'y * x' else vx * F(v) for v in yvals]
    exp = [sat(e, z.signed, z.n_word, z.n_frac) for e in exact]
    got = [int(v) for v in np.asarray(z.val).ravel().tolist()]
    eflags = (any(e[1] for e in exp), any(e[2] for e in exp))
    gflags = (z.status['overflow'], z.status['underflow'])
    if got != [e[0] for e in exp] or gflags != eflags:
        bad += 1
        print('DISCREPANCY %s with x=Fxp(-2**63, True, 16, 0, bias=-2**63), y=Fxp(%r, True, 16, 0): result %s codes %r flags(over,under)=%r; '
              'expected codes %r flags %r (exact values %r)' % (name, yvals, z.dtype, got, gflags, [e[0] for e in exp], eflags, [int(e) for e in exact]))
# value beyond int64: numpy refuses the python int
x70 = Fxp(2**70, True, 16, 0, bias=2**70)       # code 0, value 2**70
try:
    z = x70 * Fxp([2, 3], True, 16, 0)
    got = [int(v) for v in np.asarray(z.val).ravel().tolist()]
    if got != [2**31 - 1] * 2 or not z.status['overflow']:
        bad += 1; print('DISCREPANCY x70 * y: codes %r status %r; expected [2147483647, 2147483647] with overflow' % (got, z.status))
except Exception as e:
    bad += 1; print('DISCREPANCY x70 * y with x70=Fxp(2**70, True, 16, 0, bias=2**70): raises %r; expected s32/0 codes [2147483647, 2147483647] with overflow' % (e,))
# words of 64 bits and more (C19 flavour): value 4 held in a scaled 70 bit scalar times int64 codes
z = Fxp([2**61, 3], True, 63, 0) * Fxp(4, True, 70, 0, bias=1)
got = [int(v) for v in np.asarray(z.val).ravel().tolist()]
if got != [2**63, 12]:
    bad += 1; print('DISCREPANCY Fxp([2**61, 3], True, 63, 0) * Fxp(4, True, 70, 0, bias=1): %s codes %r; expected [%d, 12]' % (z.dtype, got, 2**63))
print('repro_1:', 'DEFECT PRESENT (%d discrepancies)' % bad if bad else 'ok')
sys.exit(1 if bad else 0)
