"""LEFT-OVER of c8318bc: the one-operand value based calculation (functions._function_over_one_var: sum, cumsum, prod, cumprod, trace
of a scaled operand, or with method='repr') has no guard at all: np.sum / np.cumsum / np.prod / np.trace run on the int64 values of the
operand and wrap modulo 2**64 - the very flaw the commit repaired for add/subtract/multiply/dot ("the value of a scaled operand is
not bounded by its word ... wrapped around in int64 and saturated at the lower bound").

Run: cd /tmp/fw_0 && PYTHONPATH=/tmp/fw_0 /venv/bin/python review/repro_2.py
"""
import sys, warnings
from fractions import Fraction as F
import numpy as np
warnings.simplefilter('ignore')
from fxpmath import Fxp

def sat(v, signed, n_word, n_frac):
    c = F(v) * F(2) ** n_frac
    c = int(c) if c >= 0 else -int(-c)
    lo, hi = (-(1 << (n_word - 1)), (1 << (n_word - 1)) - 1) if signed else (0, (1 << n_word) - 1)
    return min(max(c, lo), hi), c > hi, c < lo

def codes(z): return [int(v) for v in np.asarray(z.val).ravel().tolist()]

bad = 0
def check(name, z, exact):
    global bad
    exp = [sat(e, z.signed, z.n_word, z.n_frac) for e in exact]
    ef = (any(e[1] for e in exp), any(e[2] for e in exp)); gf = (z.status['overflow'], z.status['underflow'])
    if codes(z) != [e[0] for e in exp] or gf != ef:
        bad += 1
        print('DISCREPANCY %s: %s codes %r flags(over,under)=%r; expected codes %r flags %r (exact results %r)'
              % (name, z.dtype, codes(z), gf, [e[0] for e in exp], ef, [int(e) for e in exact]))

# eight elements of a 12 bit format with bias 2**61; every code is 0, every value exactly 2**61 (all partial sums are exact doubles too)
x = Fxp([2**61] * 8, True, 12, 0, bias=2**61)
assert codes(x) == [0] * 8 and not any(x.status[k] for k in ('overflow', 'underflow', 'inaccuracy'))
vals = [F(2**61)] * 8
check('x.sum()', x.sum(), [sum(vals)])
check('np.sum(x)', np.sum(x), [sum(vals)])
check('np.cumsum(x)', np.cumsum(x), [sum(vals[:k]) for k in range(1, 9)])
check('x.cumsum()', x.cumsum(), [sum(vals[:k]) for k in range(1, 9)])
m = Fxp([[2**62, 2**62], [2**62, 2**62]], True, 12, 0, bias=2**62)
check('np.trace(m)', np.trace(m), [F(2**63)])
p = Fxp([2**32] * 2, True, 12, 0, bias=2**32)
check('np.prod(p)', np.prod(p), [F(2**64)])
check('np.cumprod(p)', np.cumprod(p), [F(2**32), F(2**64)])
# the same path without scaling, chosen by method='repr': twelve bit integers, 8 factors (exact product 2**88)
u = Fxp([-2048] * 8, True, 12, 0)
check("u.prod(method='repr')", u.prod(method='repr'), [F(2048) ** 8])
print('repro_2:', 'DEFECT PRESENT (%d discrepancies)' % bad if bad else 'ok')
sys.exit(1 if bad else 0)
