"""LEFT-OVER of 62e630e (borderline carrier): only 0-dimensional arrays are taken by value. A one-element array of one or more
dimensions (np.array([2.0]), np.array([[2.0]])) given as scale or bias is still kept by reference: changing the caller's array later
changes what the object reads and how it converts new inputs, while upper / lower / precision keep the old value - the flaw of the
commit message, one carrier further.

Run: cd /tmp/fw_0 && PYTHONPATH=/tmp/fw_0 /venv/bin/python review/repro_3.py
"""
import sys, warnings
import numpy as np
warnings.simplefilter('ignore')
from fxpmath import Fxp

bad = 0
for mk in (lambda v: np.array([v]), lambda v: np.array([[v]])):
    s, b = mk(2.0), mk(8.0)
    x = Fxp(20.0, True, 16, 4, scale=s, bias=b)          # (20 - 8) / 2 = 6.0 -> code 96
    before = (float(np.asarray(x.get_val()).item()), float(np.asarray(x.upper).item()), float(np.asarray(x.precision).item()))
    assert int(np.asarray(x.val).item()) == 96 and before == (20.0, 2.0 * (2**15 - 1) / 16 + 8.0, 0.125), before
    s[...] = 4.0; b[...] = 16.0                            # the caller re-uses its arrays
    after = (float(np.asarray(x.get_val()).item()), float(np.asarray(x.upper).item()), float(np.asarray(x.precision).item()))
    if after != before or x.scale is s or x.bias is b:
        bad += 1
        print('DISCREPANCY scale/bias of shape %r kept by reference: after the caller changed its arrays the object reads %r, upper %r, precision %r; '
              'expected unchanged %r (and the limits no longer match the affine map in use: 4*code/16+16 has upper %r)'
              % (s.shape, after[0], after[1], after[2], before, 4.0 * (2**15 - 1) / 16 + 16.0))
print('repro_3:', 'DEFECT PRESENT (%d discrepancies)' % bad if bad else 'ok')
sys.exit(1 if bad else 0)
