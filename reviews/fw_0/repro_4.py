"""REGRESSION of 394990f: raw values carried in numpy extended precision (np.longdouble, scalar or array) are now cast to float64
before they are rescaled ("_raw_val.astype(np.complex128 if ... else np.float64)" applies to every float kind, not only to the narrow
ones), so a raw value of more than 53 significant bits loses its low bits - silently, no inaccuracy flag. Before the commit the
rescaling was done in the carrier's own type and the result was exact.

raw = 2**70 + 2**10 given for n_frac=10 is the value 2**60 + 1. The size search caps the word at 64 bits: format s64/2, in which the
value is representable exactly: code (2**70 + 2**10) / 2**8 = 2**62 + 4.

Run: cd /tmp/fw_0 && PYTHONPATH=/tmp/fw_0 /venv/bin/python review/repro_4.py
"""
import sys, warnings
import numpy as np
warnings.simplefilter('ignore')
from fxpmath import Fxp

if np.finfo(np.longdouble).nmant < 63:
    print('repro_4: skipped (np.longdouble is not an extended precision type on this platform)'); sys.exit(0)
r = np.longdouble(2**70) + np.longdouble(2**10)
assert int(r) == 2**70 + 2**10
bad = 0
for name, val in (('np.longdouble scalar', r), ('longdouble array', np.array([r, -r])), ('0-d longdouble array', np.array(r))):
    x = Fxp(val, raw=True, n_frac=10)
    got = [int(v) for v in np.asarray(x.val).ravel().tolist()]
    sign = [1, -1] if len(got) == 2 else [1]
    exp = [s * (2**62 + 4) for s in sign]
    if (x.signed, x.n_word, x.n_frac) != (True, 64, 2) or got != exp:
        bad += 1
        print('DISCREPANCY Fxp(%s, raw=True, n_frac=10): %s codes %r inaccuracy=%r; expected fxp-s64/2 codes %r (value 2**60+1 read back as %r)'
              % (name, x.dtype, got, x.status['inaccuracy'], exp, [int(g) // 4 for g in got]))
ref = Fxp(2**70 + 2**10, raw=True, n_frac=10)
print('same raw value as python int:', ref.dtype, int(ref.val))
print('repro_4:', 'DEFECT PRESENT (%d discrepancies)' % bad if bad else 'ok')
sys.exit(1 if bad else 0)
