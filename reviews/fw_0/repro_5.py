"""LEFT-OVER of 817de97 (borderline: deliberate trade-off kept by the commit). Objects returned by indexing that still share memory
with the codes they were taken from keep integer codes on a complex write: the imaginary part of the value is dropped, no inaccuracy
flag is raised (C04: the flag is raised iff a stored element differs from its input; C01: each component is stored), and the element
object spells a "-complex" dtype while holding real codes (C02). The same happens for a *stale* view, i.e. after the parent has
re-bound its codes and the view no longer looks at the codes of any object.

Run: cd /tmp/fw_0 && PYTHONPATH=/tmp/fw_0 /venv/bin/python review/repro_5.py
"""
import sys, warnings
import numpy as np
warnings.simplefilter('ignore')
from fxpmath import Fxp

bad = 0
c = 2.5 + 1.5j                                   # representable in s16/4: codes 40 and 24
# (a) retained view
x = Fxp([[1.0, 2.0, 3.0], [4.0, 5.0, 6.0]], True, 16, 4)
y = x[0:2]
y[0, 1] = c
stored = complex(np.asarray(y.val)[0, 1]); read = complex(np.asarray(y.get_val())[0, 1])
if read != c and not y.status['inaccuracy']:
    bad += 1
    print('DISCREPANCY view y = x[0:2]; y[0, 1] = (2.5+1.5j): stored code %r, reads %r, inaccuracy flag %r, y.dtype %r with real codes %r; '
          'expected the value 2.5+1.5j (codes 40+24j) or at least the inaccuracy flag' % (stored, read, y.status['inaccuracy'], y.dtype, np.asarray(y.val).dtype.name))
# (b) stale view: the parent re-binds its codes (it becomes complex), the view now looks at an orphaned buffer
x = Fxp([[1.0, 2.0, 3.0], [4.0, 5.0, 6.0]], True, 16, 4)
y = x[0]
x[1, 1] = 1j                                      # x.val is a new complex array from here on
assert not np.may_share_memory(np.asarray(y.val), np.asarray(x.val))
y[1] = c
read = complex(np.asarray(y.get_val())[1])
if read != c and not y.status['inaccuracy']:
    bad += 1
    print('DISCREPANCY stale view y = x[0] (x re-bound its codes since): y[1] = (2.5+1.5j) reads back %r, inaccuracy flag %r; '
          'expected 2.5+1.5j: y shares no codes with any object any more' % (read, y.status['inaccuracy']))
# (c) the chained write itself: same value, different outcome than the direct indexed assignment (C01: route independence)
a = Fxp([[1.0, 2.0, 3.0], [4.0, 5.0, 6.0]], True, 16, 4); a[0][1] = c
b = Fxp([[1.0, 2.0, 3.0], [4.0, 5.0, 6.0]], True, 16, 4); b[0, 1] = c
ra, rb = complex(np.asarray(a.get_val())[0, 1]), complex(np.asarray(b.get_val())[0, 1])
if ra != rb:
    bad += 1
    print('DISCREPANCY a[0][1] = (2.5+1.5j) stores %r while a[0, 1] = (2.5+1.5j) stores %r (no flag can be seen: the element object is temporary)' % (ra, rb))
print('repro_5:', 'DEFECT PRESENT (%d discrepancies)' % bad if bad else 'ok')
sys.exit(1 if bad else 0)
