"""REGRESSION of 817de97 (borderline: cost only, no statement). The element object returned by indexing now holds a reference to the
whole code array of its parent in its instance dictionary (`_viewed`). Every operation that deep-copies the instance dictionary -
Fxp(like=view), view.deepcopy(), view.like(), view.T, view.flatten(), ~view, view & m, and __getitem__ on the view itself (x[i][j])
- now copies the parent's entire array each time, and the copy stays attached to the derived object.

Run: cd /tmp/fw_0 && PYTHONPATH=/tmp/fw_0 /venv/bin/python review/repro_6.py
"""
import sys, warnings
import numpy as np
warnings.simplefilter('ignore')
from fxpmath import Fxp

x = Fxp(np.zeros((400, 400)), True, 16, 4)
row = x[3]
bad = 0
for name, obj in (('row.deepcopy()', row.deepcopy()), ('Fxp(1.0, like=row)', Fxp(1.0, like=row)), ('~row', ~row), ('row[5]', row[5])):
    extra = [k for k, v in obj.__dict__.items() if isinstance(v, np.ndarray) and v is not obj.val and v.size >= x.val.size and not np.may_share_memory(v, x.val)]
    if extra:
        bad += 1
        print('DISCREPANCY %s (a %d element object) carries a private copy of the %d element parent array in attribute(s) %r'
              % (name, np.asarray(obj.val).size, x.val.size, extra))
print('repro_6:', 'DEFECT PRESENT (%d discrepancies)' % bad if bad else 'ok')
sys.exit(1 if bad else 0)
