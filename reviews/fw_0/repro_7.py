"""LEFT-OVER of 394990f (and of e6459fc before it): raw values given as decimal strings - a string, a list / tuple of strings, a numpy
string array - are still not rescaled when the size search shortens the fraction length: they are stored as if they had been given
for the shortened fraction length and saturate ("stored unscaled and saturated", the flaw of the commit message, for one more carrier).
The isinstance() filter in Fxp.__init__ (objects.py:240-241) does not list str, and a list of strings fails both dtype tests.

raw = 2**70 given for n_frac=10 is the value 2**60; the word is capped at 64 bits: format s64/2, code 2**62 (what the python int gives).

Run: cd /tmp/fw_0 && PYTHONPATH=/tmp/fw_0 /venv/bin/python review/repro_7.py
"""
import sys, warnings
from fractions import Fraction as F
import numpy as np
warnings.simplefilter('ignore')
from fxpmath import Fxp

def expected(raws, n_frac_asked, x):      # trunc + saturate of raw / 2**n_frac_asked into the format obtained
    out = []
    for r in raws:
        c = F(r, 2 ** n_frac_asked) * F(2) ** x.n_frac
        c = int(c) if c >= 0 else -int(-c)
        lo, hi = (-(1 << (x.n_word - 1)), (1 << (x.n_word - 1)) - 1) if x.signed else (0, (1 << x.n_word) - 1)
        out.append(min(max(c, lo), hi))
    return out

bad = 0
cases = [
    ('Fxp(str(2**70), raw=True, n_frac=10)', lambda: Fxp(str(2**70), raw=True, n_frac=10), [2**70], 10),
    ('Fxp([str(2**70), "-1024"], raw=True, n_frac=10)', lambda: Fxp([str(2**70), '-1024'], raw=True, n_frac=10), [2**70, -1024], 10),
    ('Fxp("1000", raw=True, n_frac=4, n_word_max=8)', lambda: Fxp('1000', raw=True, n_frac=4, n_word_max=8), [1000], 4),
    ('Fxp(np.array(["1000", "500"]), raw=True, n_frac=4, n_word_max=8)', lambda: Fxp(np.array(['1000', '500']), raw=True, n_frac=4, n_word_max=8), [1000, 500], 4),
    ('Fxp(("1000", "500"), raw=True, n_frac=4, n_word_max=8)', lambda: Fxp(('1000', '500'), raw=True, n_frac=4, n_word_max=8), [1000, 500], 4),
]
for name, f, raws, nf in cases:
    x = f()
    ref = Fxp(raws if len(raws) > 1 else raws[0], raw=True, n_frac=nf, **({'n_word_max': 8} if 'n_word_max' in name else {}))
    got = [int(v) for v in np.asarray(x.val).ravel().tolist()]
    exp = expected(raws, nf, x)
    if got != exp:
        bad += 1
        print('DISCREPANCY %s: %s codes %r overflow=%r; expected codes %r (python integers give %s %r)'
              % (name, x.dtype, got, x.status['overflow'], exp, ref.dtype, [int(v) for v in np.asarray(ref.val).ravel().tolist()]))
print('repro_7:', 'DEFECT PRESENT (%d discrepancies)' % bad if bad else 'ok')
sys.exit(1 if bad else 0)
