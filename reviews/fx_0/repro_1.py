"""REGRESSION of 49e953c (value based prod/cumprod): the exact python-integer product is rounded to a double when it is stored into a
wrap register with a negative fraction length (the parent tree gave the right code here).
C03 (wrap = exact modular arithmetic of an n_word-bit register for arithmetic results) / C15 operand domain (n_word<=12, 6 elements)."""
import sys
from fractions import Fraction
from fxpmath import Fxp

codes = [2047] * 6
x = Fxp([c * 32 for c in codes], True, 12, -5)      # integer values 2047*32 = 65504 (codes 2047)
assert [int(c) for c in x.val] == codes

def wrap(c, n_word):                                # signed two's complement
    c %= 1 << n_word
    return c - (1 << n_word) if c >= 1 << (n_word - 1) else c

P = Fraction(1)
for c in codes:
    P *= c * 2**5                                   # exact product of the values
bad = 0
for method in ('raw', 'repr'):
    tgt = Fxp(None, True, 48, -3, overflow='wrap', rounding='trunc')
    z = x.prod(method=method, out_like=tgt)
    t = P / 2**3                                    # scaled by 2**n_frac (n_frac = -3): an integer here, no rounding involved
    assert t.denominator == 1
    exp = wrap(int(t), 48)
    got = int(z.val)
    print('prod  method=%-4s %s code %d expected %d' % (method, z.dtype, got, exp))
    bad += got != exp

# cumprod, unsigned, other shape
codes = [127] * 8
x = Fxp([c * 4 for c in codes], False, 7, -2)
assert [int(c) for c in x.val] == codes
for method in ('repr',):
    tgt = Fxp(None, False, 39, -3, overflow='wrap', rounding='trunc')
    z = x.cumprod(method=method, out_like=tgt)
    exp, p = [], Fraction(1)
    for c in codes:
        p *= c * 4
        exp.append((p / 8).__floor__() % 2**39)     # trunc == floor (non-negative), then modulo 2**39
    got = [int(c) for c in z.val]
    print('cumprod method=%-4s %s codes %s\n%32s expected %s' % (method, z.dtype, got, '', exp))
    bad += got != exp
sys.exit(1 if bad else 0)
