"""LEFT-OVER of 49e953c: the value based prod/cumprod now forms the exact python-integer product, but a result format with a negative fraction
length multiplies it by the float factor 2.0**n_frac when it is stored: a product of more than 53 significant bits is rounded to a double
(optimal sizing, no overflow; the integer method is exact). Same input class as the commit message (integer values, n_frac < 0), longer array.
C15 statement (prod/cumprod exact with optimal sizing), result word 72 > 53 bits -> outside its quantifier: borderline."""
import sys
from fxpmath import Fxp

codes = [255] * 8
x = Fxp([c * 16 for c in codes], True, 9, -4)       # integer values 255*16 (codes 255)
assert [int(c) for c in x.val] == codes
exp = 255**8                                        # product = 255**8 * 2**32, optimal format s72/-32 -> code 255**8
bad = 0
for method in ('raw', 'repr'):      # (the integer method is shown for comparison: it is exact)
    z = x.prod(method=method)
    got = int(z.val)
    print('prod method=%-4s %s code %d expected %d flags %s' % (method, z.dtype, got, exp, {k: v for k, v in z.status.items() if v}))
    bad += got != exp or (z.n_word, z.n_frac) != (72, -32)
sys.exit(1 if bad else 0)
