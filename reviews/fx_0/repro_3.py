"""LEFT-OVER of 49e953c (sibling route): the commit made the value based ('repr') prod/cumprod immune to the silent int64 wrap-around of numpy;
the integer ('raw', the default) kernel of cumprod still multiplies the codes in int64 (functions.py _cumprod_raw: np.cumprod(x.val) without
_raw_accum, which prod/sum/cumsum/trace use). Every element at the extreme of its format, optimal sizing, default method: a partial product of
2**66 is stored as 0 without any flag.  C15 (cumprod with optimal sizing never overflows / exact), result word 72 > 53: outside its quantifier.
Second symptom in the same kernel (sibling of 8b593e2): partial products are multiplied by a float factor 2.0**-k when the destination has fewer
fraction bits, so a product of more than 53 bits is rounded to a double before it is wrapped."""
import sys
import numpy as np
from fxpmath import Fxp

bad = 0
x = Fxp([-2048] * 6, True, 12, 0)
exp = [(-2048)**k for k in range(1, 7)]
for tag, z in (('x.cumprod()', x.cumprod()), ('np.cumprod(x)', np.cumprod(x)), ("x.cumprod(method='repr')", x.cumprod(method='repr'))):
    got = [int(c) for c in z.val]
    flags = {k: v for k, v in z.status.items() if v and k != 'extended_prec'}
    ok = got == exp
    print('%-26s %s %s %s' % (tag, z.dtype, 'ok' if ok else 'WRONG last code %d expected %d' % (got[-1], exp[-1]), flags))
    bad += not ok

# float factor: u7/-2 codes 127 (values 508), cumprod into a u39/-3 wrap register
codes = [127] * 8
x = Fxp(codes, False, 7, -2, raw=True)
z = x.cumprod(out_like=Fxp(None, False, 39, -3, overflow='wrap'))
exp = [((127 * 4)**k // 8) % 2**39 for k in range(1, 9)]
got = [int(c) for c in z.val]
print('cumprod into u39/-3 wrap: %s\n%19s expected %s' % (got, '', exp))
bad += got != exp
sys.exit(1 if bad else 0)
