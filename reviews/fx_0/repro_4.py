"""LEFT-OVER of 49e953c: "a python integer operand counts there too (... skipped the guard and wrapped around or raised OverflowError)" was repaired
for add/subtract/multiply/dot only. The value based floor division and modulo (x // y, x % y with method='repr') still hand the python integer
to numpy together with an int64 array: OverflowError. A python-integer value is what an element taken by index from an array of 64 bits or more
has.  C09: raw and repr agree on // and % (u8 % u70 has an optimal result word of 8 bits)."""
import sys
import fxpmath
from fxpmath import Fxp

big = 2**68 + 12345
bad = 0
def run(tag, fn, exp):
    global bad
    res = {}
    for method in ('raw', 'repr'):
        try:
            z = fn(method)
            res[method] = (z.dtype, [int(c) for c in z.val.ravel()] if hasattr(z.val, 'ravel') else [int(z.val)])
        except Exception as e:
            res[method] = '%s: %s' % (type(e).__name__, e)
    ok = all(isinstance(r, tuple) and r[1] == exp for r in res.values())
    print(tag, res, 'expected', exp, '' if ok else '  <-- DEFECT')
    bad += not ok

xs = Fxp([3, 5, 7], False, 8, 0)
run('u8[3] %  u70 element', lambda m: fxpmath.mod(xs, Fxp([big] * 3, False, 70, 0, raw=True)[1], method=m), [3, 5, 7])
run('u70 element %  u8[3]', lambda m: fxpmath.mod(Fxp([big] * 3, False, 70, 0, raw=True)[1], xs, method=m), [big % 3, big % 5, big % 7])
run('u70 element // u8[3]', lambda m: fxpmath.floordiv(Fxp([big] * 3, False, 70, 0, raw=True)[1], xs, method=m), [big // 3, big // 5, big // 7])
# the sibling the commit repaired, for comparison
run('u70 element +  u8[3]', lambda m: fxpmath.add(Fxp([big] * 3, False, 70, 0, raw=True)[1], xs, method=m), [big + 3, big + 5, big + 7])
sys.exit(1 if bad else 0)
