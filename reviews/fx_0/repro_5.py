"""LEFT-OVER of 3aaeab1: a raw value in an extended precision numpy type keeps its own type when it is rescaled by the constructor only if it
comes as a numpy scalar / array of that dtype. The same values in a list, a tuple or an object array go through the object branch
(objects.py:243/248: np.array(val, dtype=object) * Fraction(1, 2**k)); np.longdouble * Fraction is a python float: narrowed to a double as
before, without the carrier-independence C01 asks for (value 2**60 + 1 asked, 2**60 stored).  Outside the numeric quantifier of C01/C06
(more than 53 bits), like the example of the commit message itself: borderline."""
import sys
import numpy as np
from fxpmath import Fxp

LD = np.longdouble
if np.finfo(LD).nmant < 63:
    print('no extended precision long double on this platform'); sys.exit(0)
r = LD(2**70) + LD(2**10)           # raw value for n_frac=10: the value 2**60 + 1
bad = 0
ref = None
for tag, val in (('scalar', r), ('0-d array', np.array(r)), ('array', np.array([r, LD(1024)])), ('list', [r, LD(1024)]), ('tuple', (r, LD(1024))),
                 ('nested list', [[r], [LD(1024)]]), ('object array', np.array([r, LD(1024)], dtype=object))):
    z = Fxp(val, True, None, 10, raw=True)
    code = int(np.asarray(z.val).ravel()[0])
    exp = (2**60 + 1) * 2**z.n_frac                     # exact: the format found is s64/2
    print('%-12s %s code %d expected %d %s' % (tag, z.dtype, code, exp, '' if code == exp else '  <-- DEFECT'))
    bad += code != exp
sys.exit(1 if bad else 0)
