"""LEFT-OVER of 8b593e2 (borderline): the third example of the commit message, 2**-8 % -2**50 into a s8/0 wrap register, still gives 0 by the other
calculation method (method='repr': np.mod on doubles; the remainder -2**50 + 2**-8 needs 58 bits and is rounded to -2**50). The integer method
gives 1 since the commit, so the two methods disagree on % (C09: raw and repr agree on // and %; operands s10/8 and s52/0, result word 8)."""
import sys, math
from fractions import Fraction
import fxpmath
from fxpmath import Fxp

x = Fxp(2**-8, True, 10, 8)
y = Fxp(-2**50, True, 52, 0)
r = Fraction(1, 256) - Fraction(-2**50) * math.floor(Fraction(1, 256) / Fraction(-2**50))    # x - y*floor(x/y) = -2**50 + 2**-8
exp = math.trunc(r) % 256                                                                     # trunc rounding, then the low 8 bits
exp = exp - 256 if exp >= 128 else exp
res = {}
for method in ('raw', 'repr'):
    z = fxpmath.mod(x, y, out=Fxp(None, True, 8, 0, overflow='wrap'), method=method)
    res[method] = int(z.val)
print('2**-8 %% -2**50 into s8/0 wrap: %s expected %d' % (res, exp))
sys.exit(1 if any(v != exp for v in res.values()) else 0)
