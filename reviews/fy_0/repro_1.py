# LEFT-OVER of 9a5e9bb (C04): a python / numpy integer of 54..63 bits stored into a format with a negative fraction length is now
# rounded exactly, but the inaccuracy flag is still computed in doubles (objects.py:1085 np.equal(val, new_val/conv_factor) compares
# the int64 input as float64): when float(v) equals the stored value the loss is not reported.
import sys
from fractions import Fraction
import numpy as np
from fxpmath import Fxp

def oracle(v, n_frac, mode):
    q = Fraction(v) * Fraction(2) ** n_frac
    import math
    code = {'trunc': math.trunc, 'fix': math.trunc, 'floor': math.floor, 'ceil': math.ceil, 'around': round}[mode](q)
    return code, Fraction(code) / Fraction(2) ** n_frac != v

bad = 0
v = 2**53 + 1
cases = [
    ('constructor, python int', lambda: Fxp(v, True, 52, -3, rounding='trunc')),
    ('constructor, np.int64',   lambda: Fxp(np.int64(v), True, 52, -3, rounding='trunc')),
    ('constructor, list',       lambda: Fxp([v, 8], True, 52, -3, rounding='trunc')),
    ('set_val',                 lambda: Fxp(0, True, 52, -3, rounding='trunc').set_val(v)),
    ('call',                    lambda: (lambda x: (x(v), x)[1])(Fxp(0, True, 52, -3, rounding='trunc'))),
    ('around, negative',        lambda: Fxp(-v, True, 52, -2, rounding='around')),
]
for name, f in cases:
    x = f()
    mode = x.config.rounding
    vv = -v if 'negative' in name else v
    code, inacc = oracle(vv, x.n_frac, mode)
    got_code = int(np.asarray(x.val).ravel()[0])
    if got_code != code or x.status['inaccuracy'] != inacc:
        bad += 1
        print('%-26s input %d -> code %d (value %d), expected code %d; inaccuracy flag %s, expected %s'
              % (name, vv, got_code, got_code * 2**(-x.n_frac), code, x.status['inaccuracy'], inacc))
# indexed assignment
x = Fxp([0, 0], True, 52, -3, rounding='trunc'); x[1] = v
if not x.status['inaccuracy']:
    bad += 1; print('indexed assignment         input %d -> codes %s, inaccuracy flag False, expected True' % (v, x.val.tolist()))
sys.exit(1 if bad else 0)
