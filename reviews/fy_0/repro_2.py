# LEFT-OVER of 9a5e9bb (C01 / C19 clause "never rounded to a 53-bit mantissa"): the exact scaling is applied only when EVERY element is a
# python int (objects.py:972 all(type(v) is int ...)): a python integer of more than 53 bits that shares an object array (or a list) with a
# float or a bool still goes through the float factor 2**n_frac and is rounded to a double before floor / ceil is applied.
import sys
import numpy as np
from fxpmath import Fxp
v = -(2**53 + 1)
exp = v >> 3          # floor(v / 8) = -2**50 - 1
bad = 0
for name, val in [('object array [int, float]', np.array([v, 0.5], dtype=object)),
                  ('object array [int, bool]', np.array([v, True], dtype=object)),
                  ('object array [int, int] (control)', np.array([v, 1], dtype=object))]:
    x = Fxp(val, True, 52, -3, rounding='floor')
    got = int(x.val[0])
    if got != exp:
        bad += 1
        print('%-36s Fxp(%r, True, 52, -3, rounding="floor") stored code %d for %d, expected floor(%d/8) = %d' % (name, val.tolist(), got, v, v, exp))
sys.exit(1 if bad else 0)
