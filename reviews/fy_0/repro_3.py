# LEFT-OVER of 4b96599 (C16): the six operators accept a python integer beyond the range of doubles, the NumPy-dispatched comparisons
# (np.less(x, k), np.greater(k, x), np.equal ... -> Fxp.__array_ufunc__ -> _wrapped_numpy_func, objects.py:1895/1952) still raise
# OverflowError: int too large to convert to float, for scalars and arrays, in both operand orders.
import sys
import numpy as np
from fxpmath import Fxp
x = Fxp(1.5, True, 8, 2); a = Fxp([1.5, -2.25], True, 8, 2); K = 2**1024
bad = 0
for name, f, exp in [('np.less(x, K)', lambda: np.less(x, K), True), ('np.less_equal(x, K)', lambda: np.less_equal(x, K), True),
                     ('np.equal(x, K)', lambda: np.equal(x, K), False), ('np.not_equal(x, K)', lambda: np.not_equal(x, K), True),
                     ('np.greater(x, -K)', lambda: np.greater(x, -K), True), ('np.greater_equal(x, K)', lambda: np.greater_equal(x, K), False),
                     ('np.greater(K, x)', lambda: np.greater(K, x), True), ('np.less(a, K)', lambda: np.less(a, K), [True, True]),
                     ('np.equal(K, a)', lambda: np.equal(K, a), [False, False]),
                     ('x < K (operator, control)', lambda: x < K, True)]:
    try:
        got = np.asarray(f()).tolist()
        if got != exp:
            bad += 1; print('%-28s -> %r, expected %r' % (name, got, exp))
    except Exception as e:
        bad += 1; print('%-28s raised %s: %s (expected %r)' % (name, type(e).__name__, e, exp))
sys.exit(1 if bad else 0)
