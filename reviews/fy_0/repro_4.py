# REGRESSION of e91eaf5 (C17 / C01 per component; borderline: the quotient of the OTHER component overflows a double):
# val = (val.real / _scale) + 1j * (val.imag / _scale)   (objects.py:847)
# when imag/scale overflows to inf, 1j * inf is (nan + inf j) in complex arithmetic, so the REAL component becomes nan and is stored as the
# upper bound, whatever its value and sign. Before the commit the real component was stored correctly.
import sys, warnings
warnings.simplefilter('ignore')
from fxpmath import Fxp
bad = 0
for v, exp_real in [(complex(-49, 1e308), -98), (complex(49, 1e308), 98), (complex(-49, -1e308), -98)]:
    x = Fxp(v, True, 16, 0, scale=0.5)        # saturate; (v.real - 0) / 0.5 = +-98 is in range, v.imag / 0.5 is beyond every bound
    got = complex(x.val)
    exp_imag = 32767 if v.imag > 0 else -32768
    if (got.real, got.imag) != (exp_real, exp_imag):
        bad += 1
        print('Fxp(%r, True, 16, 0, scale=0.5) stored codes %r, expected (%d%+dj): the real component %g / 0.5 = %d is in range'
              % (v, got, exp_real, exp_imag, v.real, exp_real))
sys.exit(1 if bad else 0)
