# LEFT-OVER of e91eaf5 (C17, borderline: the real scale is given in a complex type): the component-wise division is skipped when the scale
# is a complex number (objects.py:845 `not isinstance(_scale, complex)`; np.complex64 is not even a python complex but then
# val.real / _scale is again numpy's complex division by a rounded reciprocal): the witness of the commit message still fails.
import sys
import numpy as np
from fxpmath import Fxp
bad = 0
for s in [49, 49.0, 49 + 0j, np.complex128(49), np.complex64(49)]:
    x = Fxp(49 + 98j, True, 16, 0, scale=s)
    got = complex(x.val)
    if got != 1 + 2j or x.status['inaccuracy']:
        bad += 1
        print('Fxp(49+98j, True, 16, 0, scale=%r) stored %r inaccuracy=%s, expected (1+2j) without flag' % (s, got, x.status['inaccuracy']))
sys.exit(1 if bad else 0)
