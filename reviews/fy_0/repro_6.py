# LEFT-OVER of 9a5e9bb, second clause (borderline: C03 hardware register / C15; the value exceeds 2^53): the value based prod() into a wrap
# register with a negative fraction length is exact now only when the operand's values are INTEGERS. An operand whose value type is float
# (any object built from raw codes, from floats, or by arithmetic) gives a float product (exact here: 37 significant bits); float values
# beyond 2^63 are cast with x.astype(int) in utils.wrap (utils.py:470): undefined cast -> 0.
import sys, warnings
warnings.simplefilter('ignore')
from fxpmath import Fxp
codes = [-204, -33, 255, -256, -256]
exact = 1
for c in codes: exact *= c * 2**7                      # values of s9/-7
q = exact >> 7                                         # exact: the product is a multiple of 2^35
exp = ((q + 2**51) % 2**52) - 2**51                    # 52 bit two's complement register
bad = 0
for name, x in [('float valued operand (raw=True)', Fxp(codes, True, 9, -7, raw=True)),
                ('integer valued operand (control)', Fxp([c * 128 for c in codes], True, 9, -7))]:
    for method in ('repr', 'raw'):
        out = Fxp(0, True, 52, -7, overflow='wrap')
        z = x.prod(method=method, out=out)
        if int(z.val) != exp:
            bad += 1
            print('%-34s prod(method=%r, out=s52/-7 wrap) = code %d, expected %d (exact product %d)' % (name, method, int(z.val), exp, exact))
# the same by a direct store
for v in (float(exact), exact):
    z = Fxp(v, True, 52, -7, overflow='wrap')
    if int(z.val) != exp:
        bad += 1; print('Fxp(%r, True, 52, -7, overflow="wrap") = code %d, expected %d' % (v, int(z.val), exp))
sys.exit(1 if bad else 0)
