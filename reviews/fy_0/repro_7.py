# LEFT-OVER of 9a5e9bb (borderline: word of 64 bits or more, outside C04's n_word<=52): same root cause as repro_1 (objects.py:1085, the
# read back new_val/conv_factor is a double): an EXACT store of a python integer into a wide format with a negative fraction length is
# now stored with the right code but reported as inaccurate.
import sys
from fxpmath import Fxp
bad = 0
for v, fmt in [(2**70 + 8, (True, 72, -3)), (-(2**66) - 4, (True, 66, -2)), (59890731942777387168, (False, 64, -3))]:
    for mode in ('trunc', 'floor', 'ceil', 'around'):
        x = Fxp(v, *fmt, rounding=mode)
        code = int(x.val)
        assert v % 2**(-fmt[2]) == 0
        if code != v >> -fmt[2] or x.status['inaccuracy']:
            bad += 1
            print('Fxp(%d, %r, rounding=%r): code %d (expected %d), inaccuracy=%s (expected False: %d * 2^%d == input)'
                  % (v, fmt, mode, code, v >> -fmt[2], x.status['inaccuracy'], code, -fmt[2]))
            break
sys.exit(1 if bad else 0)
