# REGRESSION of 4b96599 (outside every quantifier: needs a word of 1024 bits; reported for completeness): _comparand (objects.py:53-58)
# turns every python integer with |k| >= 2^1023 into an infinity, also when the stored value itself is that large: equality with the
# stored value is lost. Before the commit python integers were compared exactly here.
import sys
from fxpmath import Fxp
x = Fxp(-2**1023, True, 1024, 0)
bad = 0
for name, got, exp in [('x == -2**1023', bool(x == -2**1023), True), ('x != -2**1023', bool(x != -2**1023), False),
                       ('x <= -2**1023', bool(x <= -2**1023), True), ('x > -2**1023', bool(x > -2**1023), False)]:
    if got != exp:
        bad += 1; print('Fxp(-2**1023, True, 1024, 0): %s -> %s, expected %s' % (name, got, exp))
sys.exit(1 if bad else 0)
