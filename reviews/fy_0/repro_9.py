# LEFT-OVER of 4b96599 (C16, borderline: needs n_frac = -40, outside the core range of fraction lengths, n_word = 24 is inside):
# _comparand (objects.py:53-58) only handles the python integers numpy cannot convert to a double at all; the ones it converts INEXACTLY
# (more than 53 bits) are still compared after that conversion, so a stored value 2^60 "equals" the plain number 2^60 + 1.
import sys
from fxpmath import Fxp
y = Fxp(2.0**60, True, 24, -40)        # code 2^20, value exactly 2^60 (an exact double)
k = 2**60 + 1
bad = 0
for name, got, exp in [('y == k', bool(y == k), False), ('y != k', bool(y != k), True), ('y < k', bool(y < k), True),
                       ('y >= k', bool(y >= k), False), ('k > y', bool(k > y), True), ('k <= y', bool(k <= y), False)]:
    if got != exp:
        bad += 1; print('y = Fxp(2.0**60, True, 24, -40) (value 2^60), k = 2^60 + 1: %s -> %s, expected %s' % (name, got, exp))
sys.exit(1 if bad else 0)
