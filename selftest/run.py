#!/usr/bin/env python3
"""Driver of the break-and-detect corpus (selftest/mutants.py).

    selftest/run.py [name ...] [--all-props] [--no-baseline] [-j N]

For every mutant: scratch worktree of /repo HEAD under /tmp, apply the edit, run the repository suite (does it still give the
86 stable passes?), run the expected properties' quick checks with FXPVERIF_REPO=<copy>, remove the copy.
Writes selftest/RESULTS.json and selftest/RESULTS.md.
"""
import concurrent.futures
import json
import os
import subprocess
import sys
import tempfile

HERE = os.path.dirname(os.path.abspath(__file__))
VERIF = os.path.dirname(HERE)
sys.path.insert(0, HERE)
from mutants import MUTANTS  # noqa


def sh(cmd, **kw):
    return subprocess.run(cmd, stdout=subprocess.PIPE, stderr=subprocess.STDOUT, **kw)


def one(name, all_props=False, baseline=True):
    fn, old, new, props = MUTANTS[name]
    wt = tempfile.mkdtemp(prefix='self_', dir='/tmp')
    os.rmdir(wt)
    r = sh(['git', '-C', '/repo', 'worktree', 'add', '-q', '--detach', wt, 'HEAD'])
    res = {'name': name, 'expected': props}
    try:
        p = os.path.join(wt, fn)
        s = open(p).read()
        if s.count(old) != 1:
            res['error'] = 'pattern found %d times' % s.count(old)
            return res
        open(p, 'w').write(s.replace(old, new))
        r = sh(['/venv/bin/python', '-c', 'import fxpmath'], env=dict(os.environ, PYTHONPATH=wt), cwd=wt)
        if r.returncode:
            res['error'] = 'does not import'
            return res
        if baseline:
            r = sh([os.path.join(VERIF, 'tools', 'baseline.sh'), wt])
            res['suite_still_passes'] = r.returncode == 0
            res['suite'] = r.stdout.decode().strip().splitlines()[-1][:200]
        env = dict(os.environ, FXPVERIF_REPO=wt)
        res['checks'] = {}
        run = (['C%02d' % i for i in range(1, 21)] if all_props else props)
        for pid in run:
            r = sh([os.path.join(VERIF, 'check'), pid, '--tier', 'quick', '--no-evidence', '--jobs', '8'], env=env, cwd=VERIF)
            lines = [l for l in r.stdout.decode().splitlines() if 'conda' not in l]
            kinds = next((l.strip() for l in lines if 'violation kinds' in l), '')
            res['checks'][pid] = {'rc': r.returncode, 'kinds': kinds[:200]}
        res['caught_by'] = [p for p, v in res['checks'].items() if v['rc'] == 1]
        return res
    finally:
        sh(['git', '-C', '/repo', 'worktree', 'remove', '--force', wt])


def main():
    args = [a for a in sys.argv[1:] if not a.startswith('-')]
    all_props = '--all-props' in sys.argv
    baseline = '--no-baseline' not in sys.argv
    names = args or sorted(MUTANTS)
    results = []
    with concurrent.futures.ThreadPoolExecutor(max_workers=2) as ex:
        for r in ex.map(lambda n: one(n, all_props, baseline), names):
            results.append(r)
            print('%-45s suite_ok=%-5s caught_by=%s %s' % (r['name'], r.get('suite_still_passes'), r.get('caught_by'), r.get('error', '')))
            sys.stdout.flush()
    if not args:
        json.dump(results, open(os.path.join(HERE, 'RESULTS.json'), 'w'), indent=1)
        with open(os.path.join(HERE, 'RESULTS.md'), 'w') as f:
            f.write('# break-and-detect corpus: results of selftest/run.py\n\n| mutant | repo suite still 86/86 | expected | caught by (quick tier) |\n|---|---|---|---|\n')
            for r in results:
                f.write('| %s | %s | %s | %s |\n' % (r['name'], r.get('suite_still_passes'), ','.join(r['expected']), ','.join(r.get('caught_by', [])) or ('ERROR ' + r.get('error', '') if 'error' in r else 'MISSED')))
    missed = [r['name'] for r in results if not r.get('caught_by') and 'error' not in r]
    print('missed:', missed)
    return 0


if __name__ == '__main__':
    sys.exit(main())
