#!/bin/sh
# runs the repository's pinned suite (hooks off - there are none) and compares with BASELINE.json's stable passes
REPO=${1:-/repo}
OUT=$(mktemp /verif/.work/junit.XXXXXX.xml 2>/dev/null || { mkdir -p /verif/.work; mktemp /verif/.work/junit.XXXXXX.xml; })
cd "$REPO" && /venv/bin/python -m pytest -ra -q -p no:cacheprovider --timeout=900 --continue-on-collection-errors -x --co -q >/dev/null 2>&1
cd "$REPO" && PYTHONPATH="$REPO" /venv/bin/python -m pytest -q -p no:cacheprovider --timeout=900 --continue-on-collection-errors --junitxml="$OUT" >/dev/null 2>&1
/venv/bin/python - "$OUT" <<'PY'
import sys, json, xml.etree.ElementTree as ET
base = json.load(open('/root/.vp/BASELINE.json'))
want = set(base['stable_pass'])
t = ET.parse(sys.argv[1]).getroot()
passed = set()
for tc in t.iter('testcase'):
    name = tc.get('classname') + '::' + tc.get('name')
    if not any(c.tag in ('failure', 'error', 'skipped') for c in tc):
        passed.add(name)
missing = sorted(want - passed)
print('baseline: %d/%d stable tests pass; missing: %s' % (len(want & passed), len(want), missing))
sys.exit(1 if missing else 0)
PY
rc=$?
rm -f "$OUT"
exit $rc
