#!/usr/bin/env python3
"""copies confirmed seeded changes (made by independent sub-agents in scratch worktrees) into /verif/seeded/<id>/"""
import json, os, shutil, sys, glob
VERIF = os.path.dirname(os.path.dirname(os.path.abspath(__file__)))
res_dir = os.path.join(VERIF, '.work', 'seedres')
rows = []
for f in sorted(glob.glob(os.path.join(res_dir, 'C*_*m[0-9].json'))):
    base = os.path.basename(f)[:-5]
    pid, m = base.split('_')
    if m.startswith('r2'):
        src = '/tmp/s2_%s/mutants' % pid
        m = m[2:]
    elif m.startswith('r3'):
        src = '/tmp/s3_%s/mutants' % pid
        m = m[2:]
    elif m.startswith('r4'):
        src = '/tmp/s4_%s/mutants' % pid
        m = m[2:]
    elif m.startswith('r5'):
        src = '/tmp/s5_%s/mutants' % pid
        m = m[2:]
    elif m.startswith('r6'):
        src = '/tmp/s6_%s/mutants' % pid
        m = m[2:]
    elif m.startswith('r7'):
        src = '/tmp/s7_%s/mutants' % pid
        m = m[2:]
    else:
        src = '/tmp/seed_%s/mutants' % pid
    r = json.load(open(f))
    patch = r['patch']
    if not os.path.exists(patch):
        continue
    meta_src = os.path.join(src, '%s.json' % m)
    meta = json.load(open(meta_src)) if os.path.exists(meta_src) else {}
    ok = r.get('baseline_ok', None) is not False and (r.get('demo_patched_rc', 1) != 0 or (r.get('demo_outdated') and r.get('caught_by'))) and r.get('demo_clean_rc', 0) == 0
    if not ok:
        print('NOT CONFIRMED', base, r.get('baseline_ok'), r.get('demo_patched_rc'), r.get('demo_clean_rc'))
        continue
    dst = os.path.join(VERIF, 'seeded', base)
    os.makedirs(dst, exist_ok=True)
    shutil.copy(patch, os.path.join(dst, 'patch.diff'))
    demo = os.path.join(src, '%s_demo.py' % m)
    if os.path.exists(demo):
        shutil.copy(demo, os.path.join(dst, 'demo.py'))
    out = {
        'id': base, 'property': pid, 'summary': meta.get('summary'), 'needs_to_manifest': meta.get('needs'), 'files': meta.get('files'),
        'origin': 'written by an independent sub-agent that saw only the text of the property and a scratch worktree of /repo' + (' (round 2: also the one-line summaries of the round-1 changes, to avoid repeating them)' if base.split('_')[1].startswith('r2') else '') + (' (round 3: also the one-line summaries of the round-1 and round-2 changes; written against the tree repaired up to D58)' if base.split('_')[1].startswith('r3') else '') + (' (round 4: also the one-line summaries of rounds 1-3; written against the tree repaired up to D59)' if base.split('_')[1].startswith('r4') else '') + (' (round 5: also the one-line summaries of rounds 1-4; written against the tree repaired up to D77)' if base.split('_')[1].startswith('r5') else '') + (' (round 6: also the one-line summaries of rounds 1-5; written against the tree repaired up to D115)' if base.split('_')[1].startswith('r6') else '') + (' (round 7: also the one-line summaries of rounds 1-6 and a note that sequences looking at a second object / a later step had been the most productive; written against the tree repaired up to D119)' if base.split('_')[1].startswith('r7') else ''),
        'confirmed': {'repo_suite_still_86_of_86': r.get('baseline_ok'), 'demo_exit_on_patched_tree': r.get('demo_patched_rc'), 'demo_exit_on_clean_tree': r.get('demo_clean_rc'),
                      'how': 'tools/try_mutant.py <patch> --props %s --baseline --demo <demo> (scratch worktree of /repo HEAD, FXPVERIF_REPO)' % pid},
        'caught_by_quick_checks': r.get('caught_by'), 'check_results': r.get('results'),
        **({'demo_outdated': r['demo_outdated']} if r.get('demo_outdated') else {}),
    }
    json.dump(out, open(os.path.join(dst, 'meta.json'), 'w'), indent=1)
    rows.append((base, pid, (meta.get('summary') or '')[:110], ','.join(r.get('caught_by') or []) or 'MISSED'))
rows = []
for mf in sorted(glob.glob(os.path.join(VERIF, 'seeded', '*', 'meta.json'))):
    m = json.load(open(mf))
    rows.append((m['id'], m['property'], (m.get('summary') or '')[:110], ','.join(m.get('caught_by_quick_checks') or []) or 'MISSED'))
with open(os.path.join(VERIF, 'seeded', 'INDEX.md'), 'w') as f:
    f.write('# seeded changes (independent sub-agents) and which quick checks catch them\n\n| id | property | change | caught by |\n|---|---|---|---|\n')
    for r in rows:
        f.write('| %s | %s | %s | %s |\n' % r)
print(len(rows), 'seeded changes collected;', sum(1 for r in rows if r[3] == 'MISSED'), 'missed')
