#!/usr/bin/env python3
"""regenerates /verif/MANIFEST.json from the property modules that exist under fxpverif/props"""
import importlib, json, os, sys
VERIF = os.path.dirname(os.path.dirname(os.path.abspath(__file__)))
sys.path.insert(0, VERIF)
props = [json.loads(l) for l in open(os.path.join(VERIF, 'properties.jsonl'))]
checks, na = [], []
for p in props:
    pid = p['id']
    path = os.path.join(VERIF, 'fxpverif', 'props', pid.lower() + '.py')
    if not os.path.exists(path):
        na.append({'property_id': pid, 'reason': 'runtime monitor for this property is not built yet (planned, see DESIGN.md section 5)'})
        continue
    src = open(path).read()
    def const(name, default=''):
        import ast
        for node in ast.parse(src).body:
            if isinstance(node, ast.Assign) and any(getattr(t, 'id', None) == name for t in node.targets):
                try:
                    return ast.literal_eval(node.value)
                except Exception:
                    return default
        return default
    checks.append({
        'property_id': pid,
        'quick_cmd': './check %s --tier quick' % pid,
        'thorough_cmd': './check %s --tier thorough' % pid,
        'evidence_file': 'evidence/%s.json' % pid,
        'replay_cmd_template': './check %s --replay {path}' % pid,
        'engine': 'fxpverif',
        'technique': const('TECHNIQUE', 'runtime monitoring: boundary monitor on the real API + exact reference-model oracle over recorded events'),
        'level_claimed': {
            'category': 'exploration',
            'text': const('LEVEL_TEXT', 'The property held on every monitored execution of this run: the real fxpmath code is driven by a hostile, partly '
                    'exhaustive workload while a boundary monitor records every outermost public call and an exact oracle (Python ints/Fractions) judges each event. '
                    'Says nothing about inputs the workload did not produce.'),
            'design_ref': 'DESIGN.md section 5 (%s)' % pid,
        },
        'level_note': 'trusted base: CPython, NumPy as array container, fxpverif/refmodel.py (self-tested at the start of every shard), the generators\' domain bounds quoted from the property; '
                      'verdicts are three-valued (exit 2 = inconclusive, never folded into held)',
    })
m = {
    'version': 1,
    'setup_cmd': 'cd /verif && /venv/bin/python -m fxpverif.refmodel && /venv/bin/python tools/setup_deps.py',
    'hooks': {
        'guard': 'FXPMATH_VERIF',
        'enable': 'no hooks in /repo: the monitors wrap the live classes from the harness (fxpverif/monitor.py) and use sys.monitoring taps; FXPMATH_VERIF is reserved and unused',
        'baseline_off_cmd': 'cd /repo && /venv/bin/python -m pytest -ra -q -p no:cacheprovider --timeout=900 --continue-on-collection-errors',
        'source_commits': [],
        'add_only': True,
    },
    'engines': [{'name': 'fxpverif', 'path': 'fxpverif/', 'serves_properties': [c['property_id'] for c in checks],
                 'kind_free_text': 'Python runtime-monitoring harness: boundary monitor (wrapping), universal invariant monitors, exact reference model, seeded hostile workloads, shard runner'}],
    'checks': checks,
    'not_applicable': na,
    'notes': 'All checks import fxpmath from /repo\'s working tree (FXPVERIF_REPO overrides for self-tests). KNOWN_FINDINGS.txt lists fixed defects (fix: commits in /repo) and open findings.',
}
json.dump(m, open(os.path.join(VERIF, 'MANIFEST.json'), 'w'), indent=1)
print('checks:', [c['property_id'] for c in checks], 'not_applicable:', [n['property_id'] for n in na])
