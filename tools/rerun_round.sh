#!/bin/sh
# tools/rerun_round.sh <root prefix, e.g. s5> <tag, e.g. r5m> : re-runs every change of a round (patch + demonstration) against the current /repo and the
# property's quick check, writing .work/seedres/<P>_<tag><n>.rerun.json (merged into the round's results by the caller)
ROOT=$1; TAG=$2
cd "$(dirname "$0")/.."
for p in C01 C02 C03 C04 C05 C06 C07 C08 C09 C10 C11 C12 C13 C14 C15 C16 C17 C18 C19 C20; do for n in 1 2 3; do
  d=/tmp/${ROOT}_$p/mutants
  [ -f $d/m$n.diff ] || continue
  /venv/bin/python tools/try_mutant.py $d/m$n.diff --props $p --demo $d/m${n}_demo.py --json .work/seedres/${p}_${TAG}$n.rerun.json 2>&1 | grep -E "caught by|DOES NOT|3way|demo on" | tr '\n' ' '
  echo " <= $p ${TAG}$n"
done; done
