#!/usr/bin/env python3
"""re-runs every seeded change of /verif/seeded against /repo HEAD: does the patch still apply, which quick checks fire.

    tools/rerun_seeded.py [--all-props] [-j N] [id ...]
Writes seeded/RECHECK.md (and with --all-props the full matrix seeded/MATRIX.md).
"""
import concurrent.futures, glob, json, os, subprocess, sys, tempfile
VERIF = os.path.dirname(os.path.dirname(os.path.abspath(__file__)))
ALL = ['C%02d' % i for i in range(1, 21)]


def one(sid, all_props):
    d = os.path.join(VERIF, 'seeded', sid)
    meta = json.load(open(os.path.join(d, 'meta.json')))
    props = ALL if all_props else [meta['property']]
    out = tempfile.mktemp(suffix='.json', dir=os.path.join(VERIF, '.work'))
    cmd = [sys.executable, os.path.join(VERIF, 'tools', 'try_mutant.py'), os.path.join(d, 'patch.diff'), '--props', ','.join(props), '--json', out]
    p = subprocess.run(cmd, stdout=subprocess.PIPE, stderr=subprocess.STDOUT)
    if os.path.exists(out):
        r = json.load(open(out))
        os.unlink(out)
    else:
        r = {'error': p.stdout.decode()[-300:]}
    return sid, meta['property'], r


def main():
    args = [a for a in sys.argv[1:] if not a.startswith('-')]
    all_props = '--all-props' in sys.argv
    j = 2
    if '-j' in sys.argv:
        j = int(sys.argv[sys.argv.index('-j') + 1])
        args = [a for a in args if a != str(j)]
    ids = args or sorted(os.path.basename(os.path.dirname(f)) for f in glob.glob(os.path.join(VERIF, 'seeded', '*', 'meta.json')))
    rows = []
    with concurrent.futures.ThreadPoolExecutor(max_workers=j) as ex:
        for sid, pid, r in ex.map(lambda s: one(s, all_props), ids):
            caught = r.get('caught_by')
            print('%-10s %s %s' % (sid, pid, 'ERROR ' + r['error'][:120] if 'error' in r else ('caught by %s' % caught)))
            sys.stdout.flush()
            rows.append((sid, pid, r))
    name = 'MATRIX.md' if all_props else 'RECHECK.md'
    if not args:
        with open(os.path.join(VERIF, 'seeded', name), 'w') as f:
            head = subprocess.run(['git', '-C', '/repo', 'log', '--format=%h', '-1'], stdout=subprocess.PIPE).stdout.decode().strip()
            f.write('# seeded changes re-run against /repo %s (%s)\n\n| id | property | caught by (quick tier) |\n|---|---|---|\n' % (head, 'all 20 checks' if all_props else 'the property\'s own check'))
            for sid, pid, r in rows:
                f.write('| %s | %s | %s |\n' % (sid, pid, ('ERROR: ' + r['error'][:80]) if 'error' in r else (','.join(r.get('caught_by') or []) or 'MISSED')))
    missed = [sid for sid, pid, r in rows if 'error' in r or not r.get('caught_by')]
    print('missed or error:', missed)


if __name__ == '__main__':
    main()
