#!/usr/bin/env python3
"""offline install of icontract (supplementary contract layer) into /verif/.deps; failure is not fatal"""
import os, subprocess, sys
VERIF = os.path.dirname(os.path.dirname(os.path.abspath(__file__)))
deps = os.path.join(VERIF, '.deps')
if os.path.isdir(os.path.join(deps, 'icontract')):
    print('icontract already present'); sys.exit(0)
r = subprocess.run([sys.executable, '-m', 'pip', 'install', '--quiet', '--no-index', '--find-links', '/opt/veriftools/wheels',
                    '--target', deps, 'icontract'], stdout=subprocess.PIPE, stderr=subprocess.STDOUT)
print('icontract install rc=%d %s' % (r.returncode, r.stdout.decode()[-300:]))
sys.exit(0)
