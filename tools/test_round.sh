#!/bin/sh
# tools/test_round.sh <round prefix: seed|s2> <tag: m|r2m> <PID...> : confirm and test the sub-agent changes of the given properties
ROOT=$1; TAG=$2; shift 2
cd "$(dirname "$0")/.."
for p in "$@"; do for n in 1 2 3; do d=/tmp/${ROOT}_$p/mutants; if [ -f $d/m$n.diff ]; then
  echo "=== $p ${TAG}$n: $(python3 -c "import json;print(json.load(open('$d/m$n.json'))['summary'][:160])" 2>/dev/null)"
  /venv/bin/python tools/try_mutant.py $d/m$n.diff --props $p --baseline --demo $d/m${n}_demo.py --json .work/seedres/${p}_${TAG}$n.json 2>&1 | grep -v conda
fi; done; done
