#!/usr/bin/env python3
"""Run the /verif checks against a patched scratch copy of /repo (never touches /repo itself).

    tools/try_mutant.py <patch.diff> [--props C01,C05] [--tier quick] [--baseline] [--demo demo.py] [--seed N]

Creates a git worktree of /repo's HEAD under /tmp, applies the patch, optionally runs the repository's suite
(must still give the 86 stable passes) and the demonstration (must fail with the patch), runs the selected checks with
FXPVERIF_REPO pointing at the copy, prints one line per check, and removes the worktree.
exit 0 if at least one check reported a violation.
"""
import argparse
import json
import os
import subprocess
import sys
import tempfile

VERIF = os.path.dirname(os.path.dirname(os.path.abspath(__file__)))
ALL = ['C%02d' % i for i in range(1, 21)]


def sh(cmd, **kw):
    return subprocess.run(cmd, stdout=subprocess.PIPE, stderr=subprocess.STDOUT, **kw)


def main():
    ap = argparse.ArgumentParser()
    ap.add_argument('patch')
    ap.add_argument('--props', default=None)
    ap.add_argument('--tier', default='quick')
    ap.add_argument('--seed', default='0')
    ap.add_argument('--baseline', action='store_true')
    ap.add_argument('--demo', default=None)
    ap.add_argument('--json', default=None)
    ap.add_argument('--base', default=None, help='commit of /repo the patch was written against: the patch is applied there and the later commits of /repo are cherry-picked on top')
    ap.add_argument('--keep', action='store_true', help='keep the worktree when the cherry-pick conflicts (to resolve by hand)')
    a = ap.parse_args()
    props = a.props.split(',') if a.props else ALL
    wt = tempfile.mkdtemp(prefix='mut_', dir='/tmp')
    os.rmdir(wt)
    r = sh(['git', '-C', '/repo', 'worktree', 'add', '-q', '--detach', wt, a.base or 'HEAD'])
    if r.returncode:
        print('worktree failed', r.stdout.decode())
        return 3
    out = {'patch': a.patch, 'results': {}}
    keep = False
    try:
        r = sh(['git', '-C', wt, 'apply', os.path.abspath(a.patch)])
        if a.base and not r.returncode:
            sh(['git', '-C', wt, 'add', '-A'])
            sh(['git', '-C', wt, '-c', 'user.name=x', '-c', 'user.email=x@x', 'commit', '-qm', 'scratch: patch under test'])
            rc = sh(['git', '-C', wt, '-c', 'user.name=x', '-c', 'user.email=x@x', 'cherry-pick', '%s..%s' % (a.base, sh(['git', '-C', '/repo', 'rev-parse', 'HEAD']).stdout.decode().strip())])
            if rc.returncode:
                print('CHERRY-PICK OF LATER FIXES CONFLICTS:', rc.stdout.decode()[-600:])
                keep = a.keep
                if keep:
                    print('worktree kept at', wt)
                return 3
        if r.returncode:
            # the patch was written against an earlier commit of /repo: try a 3-way merge
            r3 = sh(['git', '-C', wt, 'apply', '--3way', os.path.abspath(a.patch)])
            if r3.returncode:
                print('PATCH DOES NOT APPLY:', r.stdout.decode()[-300:], r3.stdout.decode()[-300:])
                return 3
            print('(applied with --3way)')
            out['applied_3way'] = True
            d = sh(['git', '-C', wt, 'diff', 'HEAD'])
            out['rebased_patch'] = d.stdout.decode()
        env = dict(os.environ, FXPVERIF_REPO=wt, VERIF_SEED=a.seed)
        if a.baseline:
            r = sh([os.path.join(VERIF, 'tools', 'baseline.sh'), wt])
            print(r.stdout.decode().strip().splitlines()[-1])
            out['baseline_ok'] = r.returncode == 0
        if a.demo:
            r = sh(['/venv/bin/python', os.path.abspath(a.demo)], cwd=wt, env=dict(os.environ, PYTHONPATH=wt))
            print('demo on patched tree: exit %d' % r.returncode)
            out['demo_patched_rc'] = r.returncode
            r2 = sh(['/venv/bin/python', os.path.abspath(a.demo)], cwd='/repo', env=dict(os.environ, PYTHONPATH='/repo'))
            print('demo on clean tree:   exit %d' % r2.returncode)
            out['demo_clean_rc'] = r2.returncode
        caught = []
        for p in props:
            r = sh([os.path.join(VERIF, 'check'), p, '--tier', a.tier, '--no-evidence'], env=env, cwd=VERIF)
            txt = r.stdout.decode()
            lines = [l for l in txt.splitlines() if 'conda' not in l]
            kinds = [l.strip() for l in lines if 'violation kinds' in l]
            first = next((l.strip() for l in lines if l.strip().startswith('kind=')), '')
            verdict = {0: 'held', 1: 'VIOLATION', 2: 'inconclusive'}.get(r.returncode, 'rc%d' % r.returncode)
            print('%s: %-12s %s %s' % (p, verdict, (kinds[0][:160] if kinds else ''), first[:200]))
            if r.returncode == 2:
                print('    ' + ' | '.join(l for l in lines if 'INCONCLUSIVE' in l)[:300])
            out['results'][p] = {'rc': r.returncode, 'kinds': kinds[0] if kinds else '', 'first': first[:300]}
            if r.returncode == 1:
                caught.append(p)
        out['caught_by'] = caught
        print('caught by:', caught)
        if a.json:
            json.dump(out, open(a.json, 'w'), indent=1)
        return 0 if caught else 1
    finally:
        if not keep:
            sh(['git', '-C', '/repo', 'worktree', 'remove', '--force', wt])


if __name__ == '__main__':
    sys.exit(main())
