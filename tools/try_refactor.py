#!/usr/bin/env python3
"""False-alarm test: run every quick check against a behaviour-preserving refactoring of /repo.

    tools/try_refactor.py <patch.diff> [...] --base <commit> [--json out.json] [-j N]

A refactoring written against an older commit of /repo (`--base`) cannot always be rebased over the later "fix:" commits, so the
comparison is differential: every check is run (FXPVERIF_REPO) on a scratch worktree of the base commit and on a second one with
the patch applied, same seed.  The verdict and the multiset of violation kinds must be IDENTICAL: whatever the checks say about
the base (it lacks later fixes, so they do report violations there), a refactoring that preserves behaviour must not change it.
Any difference is either a behaviour change in the "refactoring" or a false alarm / instability of a check: both are printed.
With --base HEAD (default) the patched tree must simply be held by all checks.
Worktrees live under /tmp and are removed.
"""
import argparse
import concurrent.futures
import json
import os
import re
import subprocess
import sys
import tempfile

VERIF = os.path.dirname(os.path.dirname(os.path.abspath(__file__)))
ALL = ['C%02d' % i for i in range(1, 21)]


def sh(cmd, **kw):
    return subprocess.run(cmd, stdout=subprocess.PIPE, stderr=subprocess.STDOUT, **kw)


def run_checks(tree, props, jobs):
    def one(p):
        r = sh([os.path.join(VERIF, 'check'), p, '--tier', 'quick', '--no-evidence', '--jobs', '4'], env=dict(os.environ, FXPVERIF_REPO=tree), cwd=VERIF)
        txt = r.stdout.decode()
        kinds = re.search(r'violation kinds \(all shards\): (\{.*?\})', txt)
        judged = re.search(r'(\d+) events judged', txt)
        return p, {'rc': r.returncode, 'kinds': kinds.group(1) if kinds else '', 'judged': int(judged.group(1)) if judged else None}
    with concurrent.futures.ThreadPoolExecutor(max_workers=jobs) as ex:
        return dict(ex.map(one, props))


def worktree(commit):
    wt = tempfile.mkdtemp(prefix='rf_', dir='/tmp')
    os.rmdir(wt)
    r = sh(['git', '-C', '/repo', 'worktree', 'add', '-q', '--detach', wt, commit])
    if r.returncode:
        raise SystemExit('worktree failed: ' + r.stdout.decode())
    return wt


def main():
    ap = argparse.ArgumentParser()
    ap.add_argument('patches', nargs='+')
    ap.add_argument('--base', default='HEAD')
    ap.add_argument('--props', default=None)
    ap.add_argument('--json', default=None)
    ap.add_argument('-j', type=int, default=4)
    a = ap.parse_args()
    props = a.props.split(',') if a.props else ALL
    out = {'base': a.base, 'patches': {}}
    wb = worktree(a.base)
    try:
        base_res = run_checks(wb, props, a.j)
        out['base_results'] = base_res
        print('base %s: %s' % (a.base, ' '.join('%s=%d' % (p, base_res[p]['rc']) for p in props)))
        for patch in a.patches:
            wp = worktree(a.base)
            try:
                r = sh(['git', '-C', wp, 'apply', os.path.abspath(patch)])
                if r.returncode:
                    print('%s: DOES NOT APPLY %s' % (patch, r.stdout.decode()[-200:]))
                    out['patches'][patch] = {'error': 'does not apply'}
                    continue
                b = sh([os.path.join(VERIF, 'tools', 'baseline.sh'), wp])
                res = run_checks(wp, props, a.j)
                diff = {p: {'base': base_res[p], 'patched': res[p]} for p in props
                        if (res[p]['rc'], res[p]['kinds']) != (base_res[p]['rc'], base_res[p]['kinds'])}
                out['patches'][patch] = {'suite_ok': b.returncode == 0, 'differences': diff,
                                         'judged_changed': [p for p in props if res[p]['judged'] != base_res[p]['judged']]}
                print('%s: suite_ok=%s differences=%s judged_changed=%s' % (patch, b.returncode == 0, sorted(diff) or 'none', out['patches'][patch]['judged_changed'] or 'none'))
                for p, d in sorted(diff.items()):
                    print('   %s base rc=%d %s | patched rc=%d %s' % (p, d['base']['rc'], d['base']['kinds'][:150], d['patched']['rc'], d['patched']['kinds'][:150]))
                sys.stdout.flush()
            finally:
                sh(['git', '-C', '/repo', 'worktree', 'remove', '--force', wp])
    finally:
        sh(['git', '-C', '/repo', 'worktree', 'remove', '--force', wb])
    if a.json:
        json.dump(out, open(a.json, 'w'), indent=1)
    return 1 if any(v.get('differences') for v in out['patches'].values()) else 0


if __name__ == '__main__':
    sys.exit(main())
